"""Reference model, part 5: X.696 canonical OER encoder, chooser-driven for BASIC-OER freedoms."""
from .asn1ast import *
from . import tags as T
from . import ber as B
from .ber import NoChoice, Chooser


def length(n, ch=None):
    c = ch.pick(3 if n < 128 else 2, 'oerlen') if ch is not None else 0
    if c == 0:
        if n < 128:
            return bytes([n])
        b = n.to_bytes((n.bit_length() + 7) // 8, 'big')
        return bytes([0x80 | len(b)]) + b
    ch.features.add('nonminimal_length')
    b = n.to_bytes(max(1, (n.bit_length() + 7) // 8), 'big')
    if c == 1:
        b = b'\0' + b
    return bytes([0x80 | len(b)]) + b


def visible_int_cons(mod, t):
    c = int_cons(mod, t)
    if c is None or c.ext:
        return None
    return c


def visible_size_cons(mod, t):
    c = size_cons(mod, t)
    if c is None or c.ext:
        return None
    return c


def int_enc(v, c, ch):
    if c is not None and c.lb is not None:
        if c.lb >= 0:
            if c.ub is not None:
                for w in (1, 2, 4, 8):
                    if c.ub <= (1 << (8 * w)) - 1:
                        return v.to_bytes(w, 'big')
            b = v.to_bytes(max(1, (v.bit_length() + 7) // 8), 'big')
            return length(len(b), ch) + b
        if c.ub is not None:
            for w in (1, 2, 4, 8):
                if c.lb >= -(1 << (8 * w - 1)) and c.ub <= (1 << (8 * w - 1)) - 1:
                    return v.to_bytes(w, 'big', signed=True)
    b = B.int_octets(v)
    return length(len(b), ch) + b


def tag_enc(cls, num):
    if num < 63:
        return bytes([(cls << 6) | num])
    out = [num & 0x7f]
    num >>= 7
    while num:
        out.append(0x80 | (num & 0x7f))
        num >>= 7
    return bytes([(cls << 6) | 63] + out[::-1])


CHAR_WIDTH = {'BMPString': 2, 'UniversalString': 4}


class DerOrder(NoChoice):
    setof_der_order = True


def encode(mod, t, v, ch=None, tag='own'):
    ch = ch or NoChoice()
    bt = mod.resolve(t)
    k = bt.kind
    if k == 'BOOLEAN':
        if v:
            c = ch.pick(3, 'true')
            return bytes([(0xff, 0x01, 0x80)[c]])
        return b'\0'
    if k == 'NULL':
        return b''
    if k == 'INTEGER':
        return int_enc(v, visible_int_cons(mod, t), ch)
    if k == 'ENUMERATED':
        if 0 <= v <= 127:
            return bytes([v])
        b = B.int_octets(v)
        return bytes([0x80 | len(b)]) + b
    if k == 'REAL':
        b = B.real_content(v)
        return length(len(b), ch) + b
    if k == 'OBJECT IDENTIFIER' or k == 'RELATIVE-OID':
        b = B.oid_content(v, k == 'RELATIVE-OID')
        return length(len(b), ch) + b
    if k == 'BIT STRING':
        sc = visible_size_cons(mod, t)
        raw = B.bits_content(v, bt.named)
        if sc is not None and sc.ub is not None and sc.lb == sc.ub:
            return raw[1:]
        return length(len(raw), ch) + raw
    if k == 'OCTET STRING':
        sc = visible_size_cons(mod, t)
        if sc is not None and sc.ub is not None and sc.lb == sc.ub:
            return bytes(v)
        return length(len(v), ch) + bytes(v)
    if k in KNOWN_MULT:
        sc = visible_size_cons(mod, t)
        b = B.str_octets(k, v)
        if sc is not None and sc.ub is not None and sc.lb == sc.ub:
            return b
        return length(len(b), ch) + b
    if k in OCTET_LIKE_STR:
        b = B.str_octets(k, v)
        return length(len(b), ch) + b
    if k in ('UTCTime', 'GeneralizedTime'):
        b = v.encode('ascii')
        return length(len(b), ch) + b
    if k in ('SEQUENCE', 'SET'):
        return _seq(mod, bt, v, ch)
    if k == 'CHOICE':
        an, av = v
        for i, (m, tg) in enumerate(T.member_tags(mod, bt)):
            if m.name == an:
                tl = T.taglist(mod, m.type, tg)
                if not tl:
                    raise ValueError('untagged CHOICE inside CHOICE has no OER tag of its own')
                body = encode(mod, m.type, av, ch, tg)
                if i >= len(bt.root):
                    body = length(len(body), ch) + body
                return tag_enc(*tl[0]) + body
        raise ValueError(an)
    if k in ('SEQUENCE OF', 'SET OF'):
        encs = [encode(mod, bt.elem, e, ch) for e in v]
        if k == 'SET OF' and len(encs) > 1 and getattr(ch, 'setof_der_order', False):
            # diagnostic variant (not an X.696 encoding rule): elements in the order of their DER encodings, which is the
            # in-memory order of a value obtained by decoding DER - used to attribute a difference to element order alone
            _ber = B
            ders = [_ber.encode(mod, bt.elem, e) for e in v]
            Ld = max(len(e) for e in ders)
            encs = [e for _, _, e in sorted(zip([d + b'\0' * (Ld - len(d)) for d in ders], range(len(encs)), encs))]
        elif k == 'SET OF' and len(encs) > 1:
            L = max(len(e) for e in encs)
            srt = sorted(encs, key=lambda x: x + b'\0' * (L - len(x)))
            if srt != srt[::-1]:
                if ch.pick(2, 'setof_order'):
                    ch.features.add('setof_reordered')
                    srt = srt[::-1]
            encs = srt
        n = len(encs)
        q = n.to_bytes(max(1, (n.bit_length() + 7) // 8), 'big')
        # the quantity is a length determinant + that many octets: BASIC-OER allows the long form of the determinant here too
        return length(len(q), ch) + q + b''.join(encs)
    raise ValueError(k)


def _present(mod, m, v):
    if m.name not in v:
        return False
    if m.has_default and B.values_equal(mod, m.type, v[m.name], m.default):
        return False
    return True


def _bits_to_bytes(bits):
    n = len(bits)
    pad = (8 - n % 8) % 8
    val = 0
    for b in bits:
        val = (val << 1) | (1 if b else 0)
    val <<= pad
    return val.to_bytes((n + pad) // 8, 'big'), pad


def _seq(mod, bt, v, ch):
    adds = bt.adds
    add_present = []
    for a in adds:
        if isinstance(a, Group):
            add_present.append(any(_present(mod, m, v) for m in a.members))
        else:
            add_present.append(_present(mod, a, v))
    roots = list(bt.root)
    if bt.kind == 'SET':
        roots = [m for m, _ in T.canonical_order(mod, bt)]
    unknown = 0
    pre = []
    if bt.ext:
        # 1: one unknown addition; 2: two unknown additions, absent then present; 3: present, absent, present
        unknown = ch.pick(4, 'unknown_ext')
        if unknown:
            ch.features.add('unknown_ext')
        pre.append(any(add_present) or bool(unknown))
    for m in roots:
        if m.optional or m.has_default:
            pre.append(_present(mod, m, v))
    out = b''
    if pre:
        out += _bits_to_bytes(pre)[0]
    mt = dict((m.name, tg) for m, tg in T.member_tags(mod, bt))
    for m in roots:
        if (m.optional or m.has_default) and not _present(mod, m, v):
            continue
        out += encode(mod, m.type, v[m.name], ch, mt[m.name])
    if bt.ext and (any(add_present) or unknown):
        bitmap = list(add_present) + {0: [], 1: [True], 2: [False, True], 3: [True, False, True]}[unknown]
        bb, pad = _bits_to_bytes(bitmap)
        out += length(len(bb) + 1, ch) + bytes([pad]) + bb
        for a, p in zip(adds, add_present):
            if not p:
                continue
            if isinstance(a, Group):
                gpre = [_present(mod, m, v) for m in a.members if m.optional or m.has_default]
                body = _bits_to_bytes(gpre)[0] if gpre else b''
                for m in a.members:
                    if (m.optional or m.has_default) and not _present(mod, m, v):
                        continue
                    body += encode(mod, m.type, v[m.name], ch, mt[m.name])
            else:
                body = encode(mod, a.type, v[a.name], ch, mt[a.name])
            out += length(len(body), ch) + body
        if unknown:
            out += length(3, ch) + b'\x01\x02\x03'
        if unknown == 3:
            out += length(2, ch) + b'\x04\x05'
    return out
