"""Reference model, part 3: X.690 DER encoder and BER variant enumerator (chooser-driven).

`encode(mod, t, v)` with the default Chooser() yields DER. Every non-canonical-but-valid BER freedom is a
*choice point*; `variants(fn, k)` enumerates all encodings with at most k non-default choices.
"""
import struct, math
from .asn1ast import *
from . import tags as T


class Chooser:
    def __init__(self, prefix=()):
        self.prefix = list(prefix)
        self.points = []  # (noptions, label, chosen)
        self.features = set()

    def pick(self, nopts, label):
        i = len(self.points)
        c = self.prefix[i] if i < len(self.prefix) else 0
        if c >= nopts:
            raise IndexError('choice out of range at %d (%s)' % (i, label))
        self.points.append((nopts, label, c))
        return c

    def choices(self):
        return [c for _, _, c in self.points]

    def deviations(self):
        return [(i, l, c) for i, (n, l, c) in enumerate(self.points) if c]


class NoChoice(Chooser):
    lastform = 'def'

    def pick(self, nopts, label):
        return 0


def variants(fn, k, cap=None):
    """all results of fn(chooser) with <= k non-default choices; yields (result, chooser)."""
    out = []

    def rec(prefix, used):
        if cap is not None and len(out) >= cap:
            return
        ch = Chooser(prefix)
        res = fn(ch)
        out.append((res, ch))
        if used >= k:
            return
        pts = ch.points
        for i in range(len(prefix), len(pts)):
            for alt in range(1, pts[i][0]):
                rec([c for _, _, c in pts[:i]] + [alt], used + 1)
    rec([], 0)
    return out


# ------------------------------------------------------------------ primitives

def ident(cls, num, constructed):
    b0 = (cls << 6) | (0x20 if constructed else 0)
    if num <= 30:
        return bytes([b0 | num])
    out = [num & 0x7f]
    num >>= 7
    while num:
        out.append(0x80 | (num & 0x7f))
        num >>= 7
    return bytes([b0 | 0x1f] + out[::-1])


def length(n):
    if n < 128:
        return bytes([n])
    b = n.to_bytes((n.bit_length() + 7) // 8, 'big')
    return bytes([0x80 | len(b)]) + b


def length_long_redundant(n):
    b = n.to_bytes(max(1, (n.bit_length() + 7) // 8), 'big')
    b = b'\0' + b
    return bytes([0x80 | len(b)]) + b


def tlv(ch, cls, num, constructed, content, label='tlv', force_indef=False):
    idb = ident(cls, num, constructed)
    if constructed and (force_indef or getattr(ch, 'all_indef', False)):
        # one encoder-policy deviation ("stream everything" / "this whole tag chain indefinite") instead of one per TLV
        ch.lastform = 'indef'
        return idb + b'\x80' + content + b'\0\0'
    nopt = 3 if constructed else 2
    c = ch.pick(nopt, 'len:' + label)
    if c == 0:
        ch.lastform = 'def'
        return idb + length(len(content)) + content
    if c == 1:
        ch.lastform = 'def'
        return idb + length_long_redundant(len(content)) + content
    ch.lastform = 'indef'
    return idb + b'\x80' + content + b'\0\0'


def int_octets(v):
    n = 1
    while True:
        try:
            return v.to_bytes(n, 'big', signed=True)
        except OverflowError:
            n += 1


def real_content(v):
    """X.690 8.5 with the DER restrictions of 11.3"""
    if isinstance(v, str):
        v = float(v)
    if v != v:
        return b'\x42'
    if v == math.inf:
        return b'\x40'
    if v == -math.inf:
        return b'\x41'
    if v == 0:
        return b'\x43' if math.copysign(1, v) < 0 else b''
    bits = struct.unpack('>Q', struct.pack('>d', v))[0]
    sign = bits >> 63
    e = (bits >> 52) & 0x7ff
    m = bits & ((1 << 52) - 1)
    if e == 0:
        e = -1074
    else:
        m |= 1 << 52
        e = e - 1075
    while m & 1 == 0:
        m >>= 1
        e += 1
    eo = int_octets(e)
    mo = m.to_bytes((m.bit_length() + 7) // 8, 'big')
    first = 0x80 | (0x40 if sign else 0)
    if len(eo) <= 3:
        first |= len(eo) - 1
        return bytes([first]) + eo + mo
    return bytes([first | 3, len(eo)]) + eo + mo


def oid_content(arcs, relative=False):
    out = bytearray()
    if not relative:
        arcs = [arcs[0] * 40 + arcs[1]] + list(arcs[2:])
    for a in arcs:
        chunk = [a & 0x7f]
        a >>= 7
        while a:
            chunk.append(0x80 | (a & 0x7f))
            a >>= 7
        out += bytes(chunk[::-1])
    return bytes(out)


def str_octets(kind, s):
    if kind == 'BMPString':
        return s.encode('utf-16-be')
    if kind == 'UniversalString':
        return s.encode('utf-32-be')
    if kind == 'UTF8String':
        return s.encode('utf-8')
    return s.encode('latin-1')


def bits_content(v, named):
    b, n = v
    b = bytearray(b[:(n + 7) // 8])
    if named:
        while n > 0 and not (b[(n - 1) >> 3] & (0x80 >> ((n - 1) & 7))):
            n -= 1
        b = b[:(n + 7) // 8]
    unused = (8 - n % 8) % 8
    if b and unused:
        b[-1] &= (0xff << unused) & 0xff
    return bytes([unused]) + bytes(b)


# ------------------------------------------------------------------ encoder

def encode_policy(mod, t, v, ch):
    """encode() preceded by the encoder-policy choice 'every constructed TLV in the indefinite form' (one deviation)."""
    ch.all_indef = ch.pick(2, 'all_indef') == 1
    return encode(mod, t, v, ch)


def encode(mod, t, v, ch=None, tag='own'):
    ch = ch or NoChoice()
    tl = T.taglist(mod, t, tag)
    bt = mod.resolve(t)
    k = bt.kind
    if k == 'CHOICE':
        an, av = v
        body = None
        for m, tg in T.member_tags(mod, bt):
            if m.name == an:
                body = encode(mod, m.type, av, ch, tg)
        assert body is not None, an
        forms = []
        chain = len(tl) >= 2 and not getattr(ch, 'all_indef', False) and ch.pick(2, 'chain_indef') == 1
        for cls, num in reversed(tl):
            body = tlv(ch, cls, num, True, body, 'wrap', chain)
            forms.append(getattr(ch, 'lastform', 'def'))
        if len(set(forms)) > 1:
            ch.features.add('mixed_chain')
        return body
    content, constructed = _content(mod, bt, v, ch)
    if constructed and k in STRLIKE and tl != [(0, 3 if k == 'BIT STRING' else 4)]:
        # the string carries any tag besides the bare UNIVERSAL 3/4 of its segments (X.690 8.7.3, 8.21.5.4 example)
        ch.features.add('constructed_string_retagged')
    forms = []
    body = content
    chain = len(tl) >= 2 and constructed and not getattr(ch, 'all_indef', False) and ch.pick(2, 'chain_indef') == 1
    for i, (cls, num) in enumerate(reversed(tl)):
        body = tlv(ch, cls, num, constructed if i == 0 else True, body, k if i == 0 else 'wrap', chain)
        forms.append(getattr(ch, 'lastform', 'def'))
    if len(set(forms)) > 1:
        ch.features.add('mixed_chain')
    return body


STRLIKE = ('OCTET STRING', 'BIT STRING', 'UTCTime', 'GeneralizedTime') + STRINGS


def _content(mod, bt, v, ch):
    k = bt.kind
    if k == 'BOOLEAN':
        if v:
            c = ch.pick(3, 'true')
            return bytes([(0xff, 0x01, 0x80)[c]]), False
        return b'\0', False
    if k in ('INTEGER', 'ENUMERATED'):
        return int_octets(v), False
    if k == 'NULL':
        return b'', False
    if k == 'REAL':
        return real_content(v), False
    if k == 'OBJECT IDENTIFIER':
        return oid_content(v), False
    if k == 'RELATIVE-OID':
        return oid_content(v, True), False
    if k in STRLIKE:
        if k == 'BIT STRING':
            raw = bits_content(v, bt.named)
        elif k == 'OCTET STRING':
            raw = bytes(v)
        elif k in ('UTCTime', 'GeneralizedTime'):
            raw = v.encode('ascii')
        else:
            raw = str_octets(k, v)
        c = ch.pick(5, 'strform')
        if c == 0:
            return raw, False
        ch.features.add('constructed_string')
        isbits = (k == 'BIT STRING')
        segtag = 3 if isbits else 4

        def seg(data, last=True):
            # a primitive segment; BIT STRING segments carry their own unused-bits octet
            if isbits:
                if last:
                    return tlv(NoChoice(), 0, segtag, False, data)
                return tlv(NoChoice(), 0, segtag, False, b'\0' + data)
            return tlv(NoChoice(), 0, segtag, False, data)
        if isbits:
            unused, payload = raw[:1], raw[1:]
            h = len(payload) // 2
            first, second = payload[:h], unused + payload[h:]
            empty = b'\0'
        else:
            h = len(raw) // 2
            first, second = raw[:h], raw[h:]
            empty = b''
        if c == 1:   # two segments
            return seg(first, False) + seg(second), True
        if c == 2:   # an empty segment in front
            return seg(b'', False) + seg(first, False) + seg(second), True
        if c == 3:   # nested constructed
            inner = seg(first, False) + seg(second)
            return tlv(NoChoice(), 0, segtag, True, inner), True
        # c == 4: nested constructed with indefinite length inside
        inner = seg(first, False) + seg(second)
        return ident(0, segtag, True) + b'\x80' + inner + b'\0\0', True
    if k in ('SEQUENCE', 'SET'):
        parts = []
        mt = T.member_tags(mod, bt)
        for m, tg in mt:
            if m.name not in v:
                continue
            mv = v[m.name]
            if m.has_default and values_equal(mod, m.type, mv, m.default):
                if ch.pick(2, 'default') == 0:
                    continue
                ch.features.add('default_present')
                ch.features.add('default_present:' + mod.resolve(m.type).kind)
            parts.append((T.min_tag(mod, m.type, tg) if k == 'SET' else None, encode(mod, m.type, mv, ch, tg)))
        # members absent from v that have a DEFAULT: optionally materialise explicitly
        if k == 'SET':
            # X.690 10.3 (DER): components ordered by their tags; NOTE: an untagged CHOICE component is placed according to the
            # tag of the alternative actually encoded - i.e. by the identifier octets that are really there
            def _ident_key(enc):
                b0 = enc[0]
                num = b0 & 0x1f
                if num == 0x1f:
                    num, i = 0, 1
                    while True:
                        num = (num << 7) | (enc[i] & 0x7f)
                        if not enc[i] & 0x80:
                            break
                        i += 1
                return (b0 >> 6, num)
            parts.sort(key=lambda p: _ident_key(p[1]))
            if len(parts) > 1:
                import itertools
                n = len(parts)
                if n <= 3:
                    perms = list(itertools.permutations(range(n)))
                else:
                    perms = [tuple(range(n))] + [tuple((i + r) % n for i in range(n)) for r in range(1, n)] + [tuple(range(n - 1, -1, -1))]
                c = ch.pick(len(perms), 'setorder')
                if c:
                    ch.features.add('set_reordered')
                parts = [parts[i] for i in perms[c]]
        body = b''.join(p[1] for p in parts)
        if bt.ext:
            c = ch.pick(5, 'unknown_ext')
            if c:
                ch.features.add('unknown_ext')
                body += UNKNOWN_EXT[c - 1]
        return body, True
    if k in ('SEQUENCE OF', 'SET OF'):
        encs = [encode(mod, bt.elem, e, ch) for e in v]
        if k == 'SET OF':
            def key(x, L=max([len(e) for e in encs] or [0])):
                return x + b'\0' * (L - len(x))
            srt = sorted(encs, key=key)
            if len(encs) > 1 and srt != srt[::-1]:
                c = ch.pick(2, 'setof_order')
                if c:
                    ch.features.add('setof_reordered')
                    srt = srt[::-1]
            if len(encs) > 1 and not isinstance(ch, NoChoice) and 'setof_reordered' not in ch.features:
                # non-canonical element encodings can sort differently from the DER ones: the elements then arrive in
                # another order than in the canonical encoding although no explicit re-ordering was chosen
                canon = {}
                for e, x in zip(encs, v):
                    canon.setdefault(e, encode(mod, bt.elem, x, NoChoice()))
                cs = [canon[e] for e in srt]
                Lc = max(len(x) for x in cs)
                if cs != sorted(cs, key=lambda x: x + b'\0' * (Lc - len(x))):
                    ch.features.add('setof_reordered')
            encs = srt
        return b''.join(encs), True
    raise ValueError(k)


# unknown extension additions (context tags that no generated type uses: >= 90)
UNKNOWN_EXT = [
    bytes([0x9f, 0x5a, 0x01, 0x55]),                               # [90] primitive, high-tag-number form
    bytes([0xbf, 0x5b, 0x05, 0x02, 0x01, 0x01, 0x05, 0x00]),       # [91] constructed definite
    bytes([0xbf, 0x5c, 0x80, 0x30, 0x80, 0x02, 0x01, 0x01, 0, 0, 0, 0]),  # [92] constructed indefinite, nested
    bytes([0x9f, 0x81, 0x80, 0x00, 0x00]),                         # [16384] primitive, empty
]


def values_equal(mod, t, a, b):
    bt = mod.resolve(t)
    if bt.kind == 'BIT STRING' and bt.named:
        return bits_content(a, True) == bits_content(b, True)
    if bt.kind == 'BIT STRING':
        return bits_content(a, False) == bits_content(b, False)
    if bt.kind == 'REAL':
        return real_content(a) == real_content(b)
    return a == b


def der(mod, t, v):
    return encode(mod, t, v, NoChoice())


# ------------------------------------------------------------------ generic TLV parser (C20, self-test)

def parse_tlv(buf, off=0, end=None, depth=0):
    """parse one TLV at off; returns dict(off, cls, num, constructed, hlen, length (None=indefinite), end, children)"""
    if end is None:
        end = len(buf)
    start = off
    if off >= end:
        raise ValueError('truncated tag')
    b0 = buf[off]
    off += 1
    cls, cons, num = b0 >> 6, bool(b0 & 0x20), b0 & 0x1f
    if num == 0x1f:
        num = 0
        while True:
            if off >= end:
                raise ValueError('truncated tag')
            b = buf[off]
            off += 1
            num = (num << 7) | (b & 0x7f)
            if not b & 0x80:
                break
    if off >= end:
        raise ValueError('truncated length')
    l0 = buf[off]
    off += 1
    if l0 < 0x80:
        ln = l0
    elif l0 == 0x80:
        ln = None
    else:
        n = l0 & 0x7f
        if off + n > end:
            raise ValueError('truncated length')
        ln = int.from_bytes(buf[off:off + n], 'big')
        off += n
    node = dict(off=start, cls=cls, num=num, constructed=cons, hlen=off - start, length=ln, children=[])
    if ln is None:
        if not cons:
            raise ValueError('indefinite primitive')
        while True:
            if off + 2 <= end and buf[off] == 0 and buf[off + 1] == 0:
                off += 2
                break
            ch = parse_tlv(buf, off, end, depth + 1)
            node['children'].append(ch)
            off = ch['end']
        node['end'] = off
    else:
        if off + ln > end:
            raise ValueError('truncated value')
        if cons:
            p = off
            while p < off + ln:
                ch = parse_tlv(buf, p, off + ln, depth + 1)
                node['children'].append(ch)
                p = ch['end']
        node['end'] = off + ln
    return node
