"""Reference model, part 1: ASN.1 type/value AST and ASN.1 text printer.

Written from X.680; never looks at asn1c output or sources.

Values (Python side):
  BOOLEAN bool | NULL None | INTEGER/ENUMERATED int (ENUMERATED: the enumeration *value*) |
  REAL float or one of 'inf','-inf','nan','-0' handled through float | BIT STRING (bytes, nbits) |
  OCTET STRING bytes | character strings str | OID / RELATIVE-OID tuple of ints |
  UTCTime / GeneralizedTime str | SEQUENCE / SET dict name->value (absent optional = missing key) |
  CHOICE (altname, value) | SEQUENCE OF / SET OF list
"""
import math

UNIV = {
    'BOOLEAN': 1, 'INTEGER': 2, 'BIT STRING': 3, 'OCTET STRING': 4, 'NULL': 5, 'OBJECT IDENTIFIER': 6,
    'ObjectDescriptor': 7, 'REAL': 9, 'ENUMERATED': 10, 'UTF8String': 12, 'RELATIVE-OID': 13,
    'SEQUENCE': 16, 'SEQUENCE OF': 16, 'SET': 17, 'SET OF': 17, 'NumericString': 18, 'PrintableString': 19,
    'T61String': 20, 'TeletexString': 20, 'VideotexString': 21, 'IA5String': 22, 'UTCTime': 23,
    'GeneralizedTime': 24, 'GraphicString': 25, 'VisibleString': 26, 'ISO646String': 26, 'GeneralString': 27,
    'UniversalString': 28, 'BMPString': 30,
}
CLS = {'UNIVERSAL': 0, 'APPLICATION': 1, 'CONTEXT': 2, 'PRIVATE': 3}
CLSNAME = {0: 'UNIVERSAL', 1: 'APPLICATION', 2: '', 3: 'PRIVATE'}

KNOWN_MULT = ('NumericString', 'PrintableString', 'VisibleString', 'ISO646String', 'IA5String', 'BMPString', 'UniversalString')
OCTET_LIKE_STR = ('UTF8String', 'GeneralString', 'GraphicString', 'T61String', 'TeletexString', 'VideotexString', 'ObjectDescriptor')
STRINGS = KNOWN_MULT + OCTET_LIKE_STR
CONSTRUCTED = ('SEQUENCE', 'SET', 'CHOICE', 'SEQUENCE OF', 'SET OF')


class Cons:
    """Effective (already evaluated) value or size constraint: root interval [lb,ub] (None = MIN/MAX),
    extensible flag, and the ASN.1 text that denotes it (inside the parentheses)."""

    def __init__(self, lb, ub, ext=False, text=None):
        self.lb, self.ub, self.ext = lb, ub, ext
        if text is None:
            def s(x, inf):
                return inf if x is None else str(x)
            if lb is not None and lb == ub:
                text = str(lb)
            else:
                text = '%s..%s' % (s(lb, 'MIN'), s(ub, 'MAX'))
            if ext:
                text += ',...'
        self.text = text

    def contains(self, v):
        return (self.lb is None or v >= self.lb) and (self.ub is None or v <= self.ub)

    def __repr__(self):
        return 'Cons(%s)' % self.text


class Type:
    def __init__(self, kind, **kw):
        self.kind = kind
        self.tag = kw.pop('tag', None)        # (cls, num, mode) mode in None/'IMPLICIT'/'EXPLICIT'
        self.cons = kw.pop('cons', None)      # INTEGER value constraint
        self.size = kw.pop('size', None)      # SIZE constraint (strings, OF)
        self.alpha = kw.pop('alpha', None)    # permitted alphabet: sorted string of characters, or None
        self.alpha_text = kw.pop('alpha_text', None)
        self.named = kw.pop('named', None)    # INTEGER named numbers / BIT STRING named bits [(name,val)]
        self.root = kw.pop('root', None)      # ENUMERATED root [(name,val)] | SEQUENCE/SET members | CHOICE alts
        self.ext = kw.pop('ext', False)       # extension marker present
        self.adds = kw.pop('adds', None) or []  # additions: ENUMERATED [(name,val)], SEQUENCE [Member|Group], CHOICE [Member]
        self.elem = kw.pop('elem', None)      # OF element type
        self.ref = kw.pop('ref', None)        # REF: type name
        assert not kw, kw

    def __repr__(self):
        return 'Type(%s)' % self.kind


class Member:
    def __init__(self, name, type, optional=False, default=None, has_default=False):
        self.name, self.type, self.optional = name, type, optional
        self.default = default
        self.has_default = has_default or default is not None


class Group:
    """extension addition group [[ ... ]]"""
    def __init__(self, members):
        self.members = members


class Module:
    def __init__(self, name, tagdefault, types):
        self.name, self.tagdefault = name, tagdefault  # 'EXPLICIT' | 'IMPLICIT' | 'AUTOMATIC'
        self.types = types  # ordered dict name -> Type

    def resolve(self, t):
        """follow references; returns the first non-REF type (tags on REF nodes are NOT merged here)"""
        seen = 0
        while t.kind == 'REF':
            t = self.types[t.ref]
            seen += 1
            assert seen < 100
        return t


# ---------------------------------------------------------------- text printer

def _tag_text(tag):
    if tag is None:
        return ''
    cls, num, mode = tag
    s = '[%s%s%d]' % (CLSNAME[cls], ' ' if CLSNAME[cls] else '', num)
    if mode:
        s += ' ' + mode
    return s + ' '


def value_text(mod, t, v):
    """ASN.1 value notation (only for the simple types that may carry DEFAULT)."""
    bt = mod.resolve(t)
    k = bt.kind
    if k == 'BOOLEAN':
        return 'TRUE' if v else 'FALSE'
    if k == 'INTEGER':
        return str(v)
    if k == 'ENUMERATED':
        for n, x in list(bt.root) + list(bt.adds):
            if x == v:
                return n
        raise ValueError
    if k == 'NULL':
        return 'NULL'
    if k in STRINGS:
        return '"%s"' % v.replace('"', '""')
    if k == 'OCTET STRING':
        return "'%s'H" % v.hex().upper()
    if k == 'BIT STRING':
        b, n = v
        bits = ''.join('1' if b[i >> 3] & (0x80 >> (i & 7)) else '0' for i in range(n))
        return "'%s'B" % bits
    raise ValueError('no value notation for ' + k)


def type_text(mod, t, indent=1):
    pad = '    ' * indent
    s = _tag_text(t.tag)
    k = t.kind
    if k == 'REF':
        s += t.ref
        if t.cons is not None:
            s += ' (%s)' % t.cons.text
        if t.size is not None:
            s += ' (SIZE(%s))' % t.size.text
        return s
    if k == 'INTEGER':
        s += 'INTEGER'
        if t.named:
            s += ' { %s }' % ', '.join('%s(%d)' % nv for nv in t.named)
        if t.cons is not None:
            s += ' (%s)' % t.cons.text
        return s
    if k == 'ENUMERATED':
        items = ['%s(%d)' % nv for nv in t.root]
        if t.ext:
            items.append('...')
            items += ['%s(%d)' % nv for nv in t.adds]
        return s + 'ENUMERATED { %s }' % ', '.join(items)
    if k in ('BIT STRING', 'OCTET STRING') or k in STRINGS:
        s += k
        if k == 'BIT STRING' and t.named:
            s += ' { %s }' % ', '.join('%s(%d)' % nv for nv in t.named)
        cs = []
        if t.size is not None:
            cs.append('SIZE(%s)' % t.size.text)
        if t.alpha is not None:
            cs.append('FROM(%s)' % t.alpha_text)
        if cs:
            s += ' (%s)' % ' ^ '.join(cs) if len(cs) > 1 else ' (%s)' % cs[0]
        return s
    if k in ('SEQUENCE OF', 'SET OF'):
        base = k.split()[0]
        s += base
        if t.size is not None:
            s += ' (SIZE(%s))' % t.size.text
        s += ' OF ' + type_text(mod, t.elem, indent)
        return s
    if k in ('SEQUENCE', 'SET', 'CHOICE'):
        def mtext(m):
            x = pad + '    ' + m.name + ' ' + type_text(mod, m.type, indent + 1)
            if m.has_default:
                x += ' DEFAULT ' + value_text(mod, m.type, m.default)
            elif m.optional:
                x += ' OPTIONAL'
            return x
        items = [mtext(m) for m in t.root]
        if t.ext:
            items.append(pad + '    ...')
            for a in t.adds:
                if isinstance(a, Group):
                    items.append(pad + '    [[\n' + ',\n'.join('    ' + mtext(m) for m in a.members) + '\n' + pad + '    ]]')
                else:
                    items.append(mtext(a))
        return s + k + ' {\n' + ',\n'.join(items) + '\n' + pad + '}'
    if k == 'OBJECT IDENTIFIER' or k == 'RELATIVE-OID' or k in ('BOOLEAN', 'NULL', 'REAL', 'UTCTime', 'GeneralizedTime'):
        return s + k
    raise ValueError(k)


def module_text(mod):
    out = ['%s DEFINITIONS %s TAGS ::= BEGIN' % (mod.name, mod.tagdefault), '']
    for n, t in mod.types.items():
        out.append('%s ::= %s' % (n, type_text(mod, t, 0)))
        out.append('')
    out.append('END')
    return '\n'.join(out) + '\n'


# ---------------------------------------------------------------- helpers shared by the codecs

def all_members(t):
    """SEQUENCE/SET: flat list of (member, is_addition, group_index or None) in textual order."""
    out = [(m, False, None) for m in t.root]
    gi = 0
    for a in t.adds:
        if isinstance(a, Group):
            for m in a.members:
                out.append((m, True, gi))
            gi += 1
        else:
            out.append((a, True, None))
    return out


def int_cons(mod, t):
    """effective INTEGER constraint through references: serial application = intersection, extensibility
    from the outermost (last applied) only (X.680 50.x). Returns Cons or None."""
    chain = []
    while True:
        if t.cons is not None:
            chain.append(t.cons)
        if t.kind != 'REF':
            break
        t = mod.types[t.ref]
    if not chain:
        return None
    lb, ub = None, None
    for c in chain:
        if c.lb is not None:
            lb = c.lb if lb is None else max(lb, c.lb)
        if c.ub is not None:
            ub = c.ub if ub is None else min(ub, c.ub)
    return Cons(lb, ub, chain[0].ext, chain[0].text if len(chain) == 1 else None)


def size_cons(mod, t):
    chain = []
    while True:
        if t.size is not None:
            chain.append(t.size)
        if t.kind != 'REF':
            break
        t = mod.types[t.ref]
    if not chain:
        return None
    lb, ub = 0, None
    for c in chain:
        if c.lb is not None:
            lb = max(lb, c.lb)
        if c.ub is not None:
            ub = c.ub if ub is None else min(ub, c.ub)
    return Cons(lb, ub, chain[0].ext)


def alpha_of(mod, t):
    while True:
        if t.alpha is not None:
            return t.alpha
        if t.kind != 'REF':
            return None
        t = mod.types[t.ref]
