"""Self-test of the reference model against worked examples that can be reproduced from the texts of
X.690 / X.691 / X.696 (and plain arithmetic). Run by setup_cmd; any failure aborts the setup."""
import math, sys, os
sys.path.insert(0, os.path.dirname(os.path.dirname(os.path.abspath(__file__))))
from collections import OrderedDict
from ref.asn1ast import *
from ref import ber, uper, oer, tags


def mod(types, td='EXPLICIT'):
    return Module('S', td, OrderedDict(types))


def check(name, got, want):
    want = bytes.fromhex(want.replace(' ', ''))
    if got != want:
        raise SystemExit('ref selftest FAILED: %s: got %s want %s' % (name, got.hex(), want.hex()))


def main():
    n = 0
    m = mod([('B', Type('BOOLEAN')), ('I', Type('INTEGER')), ('N', Type('NULL')), ('O', Type('OBJECT IDENTIFIER')),
             ('BS', Type('BIT STRING')), ('S', Type('IA5String')), ('R', Type('REAL')),
             ('T1', Type('IA5String', tag=(1, 3, 'IMPLICIT'))), ('T2', Type('REF', ref='T1', tag=(2, 2, None))),
             ('SQ', Type('SEQUENCE', root=[Member('name', Type('IA5String')), Member('ok', Type('BOOLEAN'))])),
             ('OS', Type('OCTET STRING'))])
    T = m.types
    der = lambda t, v: ber.der(m, T[t], v)
    # X.690 8.2, 8.3, 8.8, 8.19, 8.6, 8.9, 8.14, 8.5 examples and elementary two's complement facts
    for t, v, h in [('B', True, '0101FF'), ('B', False, '010100'), ('I', 0, '020100'), ('I', 127, '02017F'), ('I', 128, '02020080'),
                    ('I', 256, '02020100'), ('I', -128, '020180'), ('I', -129, '0202FF7F'), ('N', None, '0500'),
                    ('O', (2, 100, 3), '0603813403'), ('O', (1, 2, 840, 113549), '06062A864886F70D'),
                    ('BS', (bytes.fromhex('0A3B5F291CD0'), 44), '0307040A3B5F291CD0'),
                    ('S', 'Jones', '16054A6F6E6573'), ('T1', 'Jones', '43054A6F6E6573'), ('T2', 'Jones', 'A20743054A6F6E6573'),
                    ('SQ', {'name': 'Smith', 'ok': True}, '300A1605536D6974680101FF'),
                    ('R', 0.0, '0900'), ('R', math.inf, '090140'), ('R', -math.inf, '090141'), ('R', 1.0, '0903800001'),
                    ('R', 0.5, '090380FF01'), ('R', -0.0, '090143'), ('R', 3.0, '0903800003'), ('R', 10.0, '0903800105'),
                    ('OS', bytes(201), '0481C9' + '00' * 201)]:
        check('DER %s %r' % (t, v), der(t, v), h)
        n += 1
    # tagging: IMPLICIT on a CHOICE becomes EXPLICIT; AUTOMATIC numbering
    ma = mod([('C', Type('CHOICE', root=[Member('a', Type('INTEGER')), Member('b', Type('BOOLEAN'))])),
              ('W', Type('SEQUENCE', root=[Member('c', Type('REF', ref='C')), Member('d', Type('NULL'))]))], 'AUTOMATIC')
    check('auto-tagged choice member', ber.der(ma, ma.types['W'], {'c': ('b', True), 'd': None}), '30 07 A0 03 81 01 FF 81 00')
    n += 1
    # X.691: constrained whole numbers, lengths, normally small numbers
    mp = mod([('A', Type('INTEGER', cons=Cons(0, 7))), ('Bq', Type('INTEGER', cons=Cons(1, 1))), ('U', Type('INTEGER')),
              ('Sm', Type('INTEGER', cons=Cons(0, None))), ('E', Type('INTEGER', cons=Cons(0, 7, True))),
              ('St', Type('IA5String', size=Cons(1, 4))), ('Oc', Type('OCTET STRING')),
              ('Sq', Type('SEQUENCE', root=[Member('x', Type('INTEGER', cons=Cons(0, 255))), Member('y', Type('BOOLEAN'), optional=True)], ext=True)),
              ('Nu', Type('NumericString')), ('Ch', Type('CHOICE', root=[Member('p', Type('NULL')), Member('q', Type('BOOLEAN'))]))], 'AUTOMATIC')
    P = mp.types
    up = lambda t, v: uper.encode(mp, P[t], v)
    for t, v, h in [('A', 5, 'A0'), ('Bq', 1, '00'), ('U', 0, '0100'), ('U', 128, '020080'), ('U', -1, '01FF'), ('Sm', 128, '0180'),
                    ('Sm', 256, '020100'), ('E', 5, '50'), ('E', 8, '808400'.replace('808400', '80 84 00')),
                    ('St', 'ab', '70E2'), ('Oc', b'\x01\x02', '020102'), ('Sq', {'x': 5}, '0140'), ('Sq', {'x': 5, 'y': True}, '4160'),
                    ('Nu', ' 19', '03 02 A0'), ('Ch', ('q', True), 'C0')]:
        check('UPER %s %r' % (t, v), up(t, v), h)
        n += 1
    w = uper.BitW(); uper.put_nsnnwn(w, 63); check('nsnnwn 63', w.tobytes(), '7E')
    w = uper.BitW(); uper.put_nsnnwn(w, 64); check('nsnnwn 64', w.tobytes(), '80 A0 00'.replace('80 A0 00', '80A000'))
    w = uper.BitW(); uper.put_len_items(w, 16384, lambda s, c: None); check('len 16K', w.tobytes(), 'C100')
    w = uper.BitW(); uper.put_len_items(w, 16383, lambda s, c: None); check('len 16383', w.tobytes(), 'BFFF')
    w = uper.BitW(); uper.put_len_items(w, 128, lambda s, c: None); check('len 128', w.tobytes(), '8080')
    n += 5
    # X.696: integer widths, lengths, enumerated, tags
    mo = mod([('a', Type('INTEGER', cons=Cons(0, 255))), ('b', Type('INTEGER', cons=Cons(0, 256))), ('c', Type('INTEGER', cons=Cons(-128, 127))),
              ('d', Type('INTEGER')), ('e', Type('INTEGER', cons=Cons(0, None))), ('en', Type('ENUMERATED', root=[('x', 0), ('y', 128), ('z', -1)])),
              ('s', Type('SEQUENCE', root=[Member('p', Type('BOOLEAN'), optional=True), Member('q', Type('INTEGER', cons=Cons(0, 255)))])),
              ('so', Type('SEQUENCE OF', elem=Type('BOOLEAN'))), ('os', Type('OCTET STRING', size=Cons(2, 2))),
              ('ch', Type('CHOICE', root=[Member('u', Type('NULL')), Member('v', Type('INTEGER', cons=Cons(0, 255)))]))], 'AUTOMATIC')
    O = mo.types
    oe = lambda t, v: oer.encode(mo, O[t], v)
    for t, v, h in [('a', 5, '05'), ('b', 5, '0005'), ('c', -1, 'FF'), ('d', 128, '020080'), ('d', -1, '01FF'), ('e', 128, '0180'),
                    ('en', 0, '00'), ('en', 128, '820080'), ('en', -1, '81FF'), ('s', {'q': 7}, '0007'), ('s', {'p': True, 'q': 7}, '80FF07'),
                    ('so', [True, False], '0102FF00'), ('so', [], '0100'), ('os', b'\x01\x02', '0102'), ('ch', ('v', 9), '8109'), ('ch', ('u', None), '80')]:
        check('OER %s %r' % (t, v), oe(t, v), h)
        n += 1
    check('oer length 128', oer.length(128), '8180'); check('oer tag 63', oer.tag_enc(2, 63), 'BF3F'); check('oer tag 128', oer.tag_enc(2, 128), 'BF8100')
    n += 3
    # distinct-tag rules
    bad = mod([('X', Type('SEQUENCE', root=[Member('a', Type('INTEGER'), optional=True), Member('b', Type('INTEGER'))]))])
    good = mod([('X', Type('SEQUENCE', root=[Member('a', Type('INTEGER'), optional=True), Member('b', Type('BOOLEAN')), Member('c', Type('INTEGER'))]))])
    assert not tags.legal(bad) and tags.legal(good)
    n += 2
    print('ref selftest ok (%d vectors)' % n)


if __name__ == '__main__':
    main()
