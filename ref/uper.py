"""Reference model, part 4: X.691 unaligned PER (canonical) encoder, chooser-driven for BASIC-PER freedoms."""
from .asn1ast import *
from . import tags as T
from . import ber as B
from .ber import NoChoice, Chooser


class BitW:
    """bit writer; whole bytes are flushed to a bytearray so that long strings stay linear-time"""
    def __init__(self):
        self.buf = bytearray()
        self.v = 0      # pending bits (< 8 after a flush)
        self.k = 0      # number of pending bits
        self.n = 0      # total bits written

    def _flush(self):
        k = self.k
        if k >= 8:
            nb = k // 8
            rem = k - nb * 8
            self.buf += (self.v >> rem).to_bytes(nb, 'big')
            self.v &= (1 << rem) - 1
            self.k = rem

    def put(self, value, nbits):
        if nbits == 0:
            return
        assert 0 <= value < (1 << nbits), (value, nbits)
        self.v = (self.v << nbits) | value
        self.k += nbits
        self.n += nbits
        if self.k >= 512:
            self._flush()

    def put_bytes(self, b):
        if not b:
            return
        if self.k % 8 == 0:
            self._flush()
            self.buf += bytes(b)
            self.n += 8 * len(b)
            return
        self.put(int.from_bytes(b, 'big'), 8 * len(b))
        self._flush()

    def put_w(self, w):
        w._flush()
        if w.buf:
            self.put_bytes(w.buf)
        if w.k:
            self.put(w.v, w.k)

    def tobytes(self, min1=True):
        self._flush()
        out = bytes(self.buf)
        if self.k:
            out += bytes([(self.v << (8 - self.k)) & 0xff])
        if not out and min1:
            return b'\0'
        return out


def bits_for_range(r):
    return 0 if r <= 1 else (r - 1).bit_length()


def put_constrained(w, v, lb, ub):
    assert lb <= v <= ub, (v, lb, ub)
    w.put(v - lb, bits_for_range(ub - lb + 1))


def put_len_items(w, n, emit):
    """general length determinant 10.9.3.5-8 with fragmentation; emit(start,count) writes the items."""
    pos = 0
    while True:
        rem = n - pos
        if rem < 128:
            w.put(rem, 8)
            emit(pos, rem)
            return
        if rem < 16384:
            w.put(0x8000 | rem, 16)
            emit(pos, rem)
            return
        m = min(rem // 16384, 4)
        w.put(0xC0 | m, 8)
        emit(pos, m * 16384)
        pos += m * 16384


def put_octets_with_len(w, b):
    put_len_items(w, len(b), lambda s, c: w.put_bytes(b[s:s + c]))


def uint_octets(v):
    return v.to_bytes(max(1, (v.bit_length() + 7) // 8), 'big')


def put_semi(w, v, lb):
    put_octets_with_len(w, uint_octets(v - lb))


def put_unconstrained_int(w, v):
    put_octets_with_len(w, B.int_octets(v))


def put_nsnnwn(w, n):
    if n <= 63:
        w.put(0, 1)
        w.put(n, 6)
    else:
        w.put(1, 1)
        put_semi(w, n, 0)


def put_ns_length(w, n):
    """normally small length 10.9.3.4 (n >= 1)"""
    if n <= 64:
        w.put(0, 1)
        w.put(n - 1, 6)
    else:
        w.put(1, 1)
        put_len_items(w, n, lambda s, c: None)


def put_sized(w, n, cons, emit):
    if cons is not None and cons.ext:
        inroot = cons.contains(n)
        w.put(0 if inroot else 1, 1)
        if not inroot:
            put_len_items(w, n, emit)
            return
    if cons is not None and cons.ub is not None and cons.ub < 65536:
        lb = cons.lb or 0
        assert lb <= n <= cons.ub, (n, cons)
        if lb != cons.ub:
            put_constrained(w, n, lb, cons.ub)
        emit(0, n)
        return
    put_len_items(w, n, emit)


DEFAULT_ALPHA = {
    'NumericString': ' 0123456789',
    'PrintableString': ''.join(sorted(" '()+,-./0123456789:=?ABCDEFGHIJKLMNOPQRSTUVWXYZabcdefghijklmnopqrstuvwxyz")),
    'VisibleString': ''.join(chr(c) for c in range(32, 127)),
    'ISO646String': ''.join(chr(c) for c in range(32, 127)),
    'IA5String': ''.join(chr(c) for c in range(0, 128)),
}


def char_params(kind, alpha):
    """returns (bits per char, mapping function char->number)"""
    if alpha is None:
        if kind == 'BMPString':
            return 16, ord
        if kind == 'UniversalString':
            return 32, ord
        alpha = DEFAULT_ALPHA[kind]
    alpha = ''.join(sorted(set(alpha)))
    n = len(alpha)
    b = bits_for_range(n)
    if ord(alpha[-1]) < (1 << b):
        return b, ord
    idx = {c: i for i, c in enumerate(alpha)}
    return b, lambda c: idx[c]


def open_type(w, inner):
    put_octets_with_len(w, inner.tobytes(True))


def encode_into(w, mod, t, v, ch):
    bt = mod.resolve(t)
    k = bt.kind
    if k == 'BOOLEAN':
        w.put(1 if v else 0, 1)
    elif k == 'NULL':
        pass
    elif k == 'INTEGER':
        c = int_cons(mod, t)
        if c is not None and c.ext:
            inroot = c.contains(v)
            w.put(0 if inroot else 1, 1)
            if not inroot:
                put_unconstrained_int(w, v)
                return
        if c is None or c.lb is None:
            put_unconstrained_int(w, v)
        elif c.ub is None:
            assert v >= c.lb
            put_semi(w, v, c.lb)
        else:
            put_constrained(w, v, c.lb, c.ub)
    elif k == 'ENUMERATED':
        root = sorted(x for _, x in bt.root)
        if v in root:
            if bt.ext:
                w.put(0, 1)
            put_constrained(w, root.index(v), 0, len(root) - 1)
        else:
            adds = [x for _, x in bt.adds]
            w.put(1, 1)
            put_nsnnwn(w, adds.index(v))
    elif k == 'REAL':
        put_octets_with_len(w, B.real_content(v))
    elif k == 'OBJECT IDENTIFIER':
        put_octets_with_len(w, B.oid_content(v))
    elif k == 'RELATIVE-OID':
        put_octets_with_len(w, B.oid_content(v, True))
    elif k == 'BIT STRING':
        b, n = v
        sc = size_cons(mod, t)
        if bt.named:
            while n > 0 and not (b[(n - 1) >> 3] & (0x80 >> ((n - 1) & 7))):
                n -= 1
            if sc is not None and sc.lb and n < sc.lb:
                n = sc.lb
        total = int.from_bytes(b, 'big') if b else 0
        nb = len(b) * 8

        def emit_fast(s, c, total=total, nb=nb):
            if c == 0:
                return
            # bits s..s+c-1 (positions beyond nb read as zero)
            ext = max(0, s + c - nb)
            tot = total << ext
            chunk = (tot >> (nb + ext - s - c)) & ((1 << c) - 1)
            w.put(chunk, c)
        put_sized(w, n, sc, emit_fast)
    elif k == 'OCTET STRING':
        put_sized(w, len(v), size_cons(mod, t), lambda s, c: w.put_bytes(v[s:s + c]))
    elif k in KNOWN_MULT or k in ('UTCTime', 'GeneralizedTime'):
        kk = 'VisibleString' if k in ('UTCTime', 'GeneralizedTime') else k
        bits, fn = char_params(kk, alpha_of(mod, t))

        def emit(s, c):
            for chh in v[s:s + c]:
                w.put(fn(chh), bits)
        put_sized(w, len(v), size_cons(mod, t), emit)
    elif k in OCTET_LIKE_STR:
        put_octets_with_len(w, B.str_octets(k, v))
    elif k == 'SEQUENCE' or k == 'SET':
        _seq(w, mod, bt, v, ch)
    elif k == 'CHOICE':
        an, av = v
        rootorder = T.canonical_order(mod, bt)
        names = [m.name for m, _ in rootorder]
        if an in names:
            if bt.ext:
                w.put(0, 1)
            put_constrained(w, names.index(an), 0, len(names) - 1)
            m = rootorder[names.index(an)][0]
            encode_into(w, mod, m.type, av, ch)
        else:
            anames = [m.name for m in bt.adds]
            w.put(1, 1)
            put_nsnnwn(w, anames.index(an))
            inner = BitW()
            encode_into(inner, mod, bt.adds[anames.index(an)].type, av, ch)
            open_type(w, inner)
    elif k in ('SEQUENCE OF', 'SET OF'):
        encs = []
        for e in v:
            x = BitW()
            encode_into(x, mod, bt.elem, e, ch)
            encs.append(x)
        if k == 'SET OF' and len(encs) > 1:
            L = max(len(x.tobytes(False)) for x in encs)
            srt = sorted(encs, key=lambda x: x.tobytes(False) + b'\0' * (L - len(x.tobytes(False))))
            if [x.tobytes(False) for x in srt] != [x.tobytes(False) for x in srt[::-1]]:
                if ch.pick(2, 'setof_order'):
                    ch.features.add('setof_reordered')
                    srt = srt[::-1]
            encs = srt

        def emit(s, c):
            for x in encs[s:s + c]:
                w.put_w(x)
        put_sized(w, len(encs), size_cons(mod, t), emit)
    else:
        raise ValueError(k)


def _present(mod, m, v):
    if m.name not in v:
        return False
    if m.has_default and B.values_equal(mod, m.type, v[m.name], m.default):
        return False
    return True


def _seq(w, mod, bt, v, ch):
    adds = bt.adds
    add_present = []
    for a in adds:
        if isinstance(a, Group):
            add_present.append(any(_present(mod, m, v) for m in a.members))
        else:
            add_present.append(_present(mod, a, v))
    unknown = 0
    if bt.ext:
        # 1: one unknown addition; 2: one with a two-octet length; 3: two unknown additions, absent then present; 4: present, absent, present
        unknown = ch.pick(5, 'unknown_ext')
        if unknown:
            ch.features.add('unknown_ext')
        w.put(1 if (any(add_present) or unknown) else 0, 1)
    roots = list(bt.root)
    if bt.kind == 'SET':
        roots = [m for m, _ in T.canonical_order(mod, bt)]
    for m in roots:
        if m.optional or m.has_default:
            w.put(1 if _present(mod, m, v) else 0, 1)
    for m in roots:
        if (m.optional or m.has_default) and not _present(mod, m, v):
            continue
        encode_into(w, mod, m.type, v[m.name], ch)
    if bt.ext and (any(add_present) or unknown):
        bitmap = list(add_present) + {0: [], 1: [True], 2: [True], 3: [False, True], 4: [True, False, True]}[unknown]
        put_ns_length(w, len(bitmap))
        for p in bitmap:
            w.put(1 if p else 0, 1)
        for a, p in zip(adds, add_present):
            if not p:
                continue
            inner = BitW()
            if isinstance(a, Group):
                for m in a.members:
                    if m.optional or m.has_default:
                        inner.put(1 if _present(mod, m, v) else 0, 1)
                for m in a.members:
                    if (m.optional or m.has_default) and not _present(mod, m, v):
                        continue
                    encode_into(inner, mod, m.type, v[m.name], ch)
            else:
                encode_into(inner, mod, a.type, v[a.name], ch)
            open_type(w, inner)
        if unknown in (1, 3):
            put_octets_with_len(w, b'\x01\x02\x03')
        elif unknown == 4:
            put_octets_with_len(w, b'\x01\x02\x03')
            put_octets_with_len(w, b'\x04\x05')
        elif unknown == 2:
            put_octets_with_len(w, bytes(range(1, 131)))   # 130 octets: two-octet length determinant


def encode(mod, t, v, ch=None):
    w = BitW()
    encode_into(w, mod, t, v, ch or NoChoice())
    return w.tobytes(True)
