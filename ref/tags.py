"""Reference model, part 2: X.680 tagging (tag lists, automatic tagging, canonical order)."""
from .asn1ast import *


def _all_member_objs(t):
    if t.kind == 'CHOICE':
        return list(t.root) + list(t.adds)
    return [m for m, _, _ in all_members(t)]


def automatic_applies(mod, t):
    if mod.tagdefault != 'AUTOMATIC' or t.kind not in ('SEQUENCE', 'SET', 'CHOICE'):
        return False
    return all(m.type.tag is None for m in _all_member_objs(t))


def member_tags(mod, t):
    """list of (member, tag or None) with automatic tagging applied (tag mode left None => default)."""
    ms = _all_member_objs(t)
    if automatic_applies(mod, t):
        return [(m, (2, i, None)) for i, m in enumerate(ms)]
    return [(m, m.type.tag) for m in ms]


def taglist(mod, t, tag='own'):
    """outermost-first list of (class, number) that the encoding of t carries; [] for an untagged CHOICE."""
    tg = t.tag if tag == 'own' else tag
    if t.kind == 'REF':
        inner = taglist(mod, mod.types[t.ref])
    elif t.kind == 'CHOICE':
        inner = []
    else:
        inner = [(0, UNIV[t.kind])]
    if tg is None:
        return inner
    cls, num, mode = tg
    if mode is None:
        mode = 'EXPLICIT' if mod.tagdefault == 'EXPLICIT' else 'IMPLICIT'
    if not inner or mode == 'EXPLICIT':
        return [(cls, num)] + inner
    return [(cls, num)] + inner[1:]


def outer_tags(mod, t, tag='own'):
    """set of possible outermost tags (union over alternatives for an untagged CHOICE)."""
    tl = taglist(mod, t, tag)
    if tl:
        return {tl[0]}
    bt = mod.resolve(t)
    assert bt.kind == 'CHOICE'
    s = set()
    for m, tg in member_tags(mod, bt):
        s |= outer_tags(mod, m.type, tg)
    return s


def min_tag(mod, t, tag='own'):
    return min(outer_tags(mod, t, tag))


def canonical_order(mod, t):
    """members of a SET (root only) or alternatives of a CHOICE root sorted by canonical tag order.
    Returns list of (member, tag)."""
    mt = member_tags(mod, t)
    if t.kind == 'CHOICE':
        mt = mt[:len(t.root)]
    else:
        mt = mt[:len(t.root)]
    return sorted(mt, key=lambda x: min_tag(mod, x[0].type, x[1]))


def distinct_violations(mod, t):
    """X.680 distinct-tag rules for one SEQUENCE / SET / CHOICE node (members looked through untagged CHOICEs
    and references). Returns list of (name_i, name_j) pairs that clash."""
    bad = []
    mt = member_tags(mod, t)
    sets = [(m, outer_tags(mod, m.type, tg)) for m, tg in mt]
    if t.kind in ('CHOICE', 'SET'):
        for i in range(len(sets)):
            for j in range(i + 1, len(sets)):
                if sets[i][1] & sets[j][1]:
                    bad.append((sets[i][0].name, sets[j][0].name))
        return bad
    if t.kind == 'SEQUENCE':
        nroot = len(t.root)
        optlike = [(m.optional or m.has_default or idx >= nroot) for idx, (m, _) in enumerate(sets)]
        for i in range(len(sets)):
            if not optlike[i]:
                continue
            for j in range(i + 1, len(sets)):
                if sets[i][1] & sets[j][1]:
                    bad.append((sets[i][0].name, sets[j][0].name))
                if not optlike[j]:
                    break
    return bad


def all_nodes(mod):
    """every type node of the module (named types and inline members), depth first"""
    out = []

    def rec(t):
        out.append(t)
        if t.kind in ('SEQUENCE', 'SET'):
            for m, _, _ in all_members(t):
                rec(m.type)
        elif t.kind == 'CHOICE':
            for m in list(t.root) + list(t.adds):
                rec(m.type)
        elif t.kind in ('SEQUENCE OF', 'SET OF'):
            rec(t.elem)
    for t in mod.types.values():
        rec(t)
    return out


def choice_ext_order_violation(mod, t):
    """X.680 CHOICE rule: the tags of the extension addition alternatives must be in canonical order (each greater than
    the previous ones); PER indexes extension additions textually and relies on it."""
    if t.kind != 'CHOICE' or not t.adds:
        return False
    mt = member_tags(mod, t)[len(t.root):]
    keys = [min_tag(mod, m.type, tg) for m, tg in mt]
    return any(keys[i] >= keys[i + 1] for i in range(len(keys) - 1))


def legal(mod):
    for t in all_nodes(mod):
        if t.kind in ('SEQUENCE', 'SET', 'CHOICE') and distinct_violations(mod, t):
            return False
        if choice_ext_order_violation(mod, t):
            return False
    return True
