"""C04: decoding arbitrary bytes is memory-safe, terminates and leaves a usable structure.
Bounded-exhaustive mutation of seed encodings, executed by the driver's `mut` command (exact-size heap
inputs under ASan/UBSan, post-mortem print/validate/encode/free, allocation ledger)."""
import collections
from tools import common, corpus
from checks import base
from gen import features, values
from ref import asn1ast as A, ber, uper, oer


def seeds_for(b, c, tier):
    """[(syntax, bytes, label)] seed encodings of the typical value (and, thorough, of two boundary values)"""
    t = b.mod.types[c.name]
    vals = corpus.case_values(b, c)
    if not vals:
        return [], set()
    pick = [vals[len(vals) // 2]]
    if tier != 'quick':
        pick += [vals[0], vals[-1]]
    out = []
    fe_all = set()
    for v, d in pick:
        fe = features.features(b.mod, t, v)
        fe_all |= fe
        out.append(('ber', d, v))
        # an indefinite-length / constructed variant widens the reachable decoder states
        try:
            vs = ber.variants(lambda ch: ber.encode_policy(b.mod, t, v, ch), 1, cap=40)
            for enc, ch in vs:
                if any(l.startswith('len:') and cc == 2 for _, l, cc in ch.deviations()):
                    out.append(('ber', enc, v))
                    break
        except Exception:
            pass
        if 'has_SET' not in fe:
            for syn, fn in (('uper', uper.encode), ('oer', oer.encode)):
                if syn == 'oer' and 'k:ObjectDescriptor' in fe:
                    continue
                try:
                    out.append((syn, fn(b.mod, t, v), v))
                except Exception:
                    pass
            # BASIC-OER seeds: the long form of one length determinant / quantity (valid, never produced by the library itself);
            # their truncations end inside a multi-octet determinant
            if 'k:ObjectDescriptor' not in fe:
                try:
                    vs = ber.variants(lambda ch: oer.encode(b.mod, t, v, ch), 1, cap=40)
                    picked = 0
                    for enc, ch in vs:
                        if 'nonminimal_length' in ch.features and picked < 2:
                            out.append(('oer', enc, v))
                            picked += 1
                except Exception:
                    pass
    return out, fe_all


def make_worker(tier):
    def worker(b):
        o = base.Out()
        jobs = []
        xsrc = []
        for c in b.cases:
            if c.family == 'S6' and c.label.startswith('long/'):
                continue
            sd, fe = seeds_for(b, c, tier)
            for syn, enc, v in sd:
                if len(enc) > 400:
                    continue
                jobs.append((c, syn, enc, v, fe))
            if sd:
                xsrc.append((c, sd[0][1], sd[0][2], fe))
        res = common.run_driver(b.exe, ['enc %s cxer %s' % (c.name, d.hex()) for c, d, v, fe in xsrc], watchdog=20)
        for (c, d, v, fe), r in zip(xsrc, res):
            if r.crash is None and ' out=' in (r.line or '') and ' out=E' not in r.line:
                hx = r.line.split(' out=')[1].strip()
                x = b'' if hx == '-' else bytes.fromhex(hx)
                if len(x) <= 400:
                    jobs.append((c, 'cxer', x, v, fe))
        for c, syn, enc, v, fe in jobs:
            untagged_leaf = (c.family == 'S0' and '/' not in c.label)
            if tier == 'quick':
                classes = 'ts' + ('e' if syn != 'cxer' else '') + ('a' if untagged_leaf and syn in ('ber', 'uper', 'oer') and len(enc) <= 4 else '')
            else:
                classes = 'tsid' + ('e' if syn != 'cxer' else '') + ('p' if len(enc) <= 40 else '') + ('ab' if c.family == 'S0' and syn != 'cxer' else 'b')
            start = 0
            hangs = 0
            for attempt in range(30):
                mask = ''   # (types without a PER/OER codec used to crash here; repaired, so nothing is masked any more)
                line = 'mut %s %s %s %s %d%s' % (c.name, syn, enc.hex() or '-', classes, start, (' mask=' + mask) if mask else '')
                r = common.run_driver(b.exe, [line], watchdog=300)[0]
                if r.crash is not None:
                    idx, data = r.cur if r.cur else (-1, b'')
                    ck, cf = common.crash_sig(r.crash)
                    o.v(b, c, 'crash', syn, r.crash[-1500:], value=v, cmd='dec %s %s %s pm%s' % (c.name, syn, data.hex() or '-', (' mask=' + mask) if mask else ''),
                        observed=r.crash[-1500:], feats=sorted(fe), extra=dict(seed=enc.hex(), classes=classes, mutant_index=idx))
                    o.stats['crashes'] += 1
                    if ck == 'timeout':
                        hangs += 1
                    if idx < 0 or hangs >= 2:
                        break
                    start = idx + 1
                    continue
                kv, _ = common.parse_kv(r.line)
                n = int(kv.get('n', 0))
                o.stats['evaluations'] += n
                o.stats['inputs:' + syn] += n
                o.stats['rc_ok'] += int(kv.get('ok', 0))
                o.stats['rc_fail'] += int(kv.get('fail', 0))
                o.stats['rc_wmore'] += int(kv.get('wmore', 0))
                if int(kv.get('outcomes', 0)) >= 3:
                    o.distinct.add((c.label, syn, enc))
                if int(kv.get('viol', 0)):
                    first = kv.get('first', '')
                    parts = first.split(':')
                    o.v(b, c, parts[0] if parts else 'violation', syn, first[:300], value=v,
                        cmd='dec %s %s %s pm' % (c.name, syn, parts[-1] if parts else ''), observed=r.line[:600], feats=sorted(fe),
                        extra=dict(seed=enc.hex(), classes=classes))
                if len(o.samples) < 1 and n:
                    o.samples.append(dict(type=A.type_text(b.mod, b.mod.types[c.name], 0)[:200], syntax=syn, seed=enc.hex()[:120], classes=classes,
                                          result=r.line[:200]))
                break
        return o
    return worker


def run(args):
    chk = common.Check('C04', 'exploration', args.tier)
    fams = base.families_for(args.tier, args.families, quick=('S0', 'S1', 'S5'), thorough=('S0', 'S1', 'S2', 'S4', 'S5'))
    stats, distinct, samples = base.run_sweep(chk, args, make_worker(args.tier), fams=fams, shape_tier='quick')
    cov = dict(evaluations=stats['evaluations'], distinct_nontrivial=len(distinct),
               rule='seed encodings (reference DER + an indefinite-length variant, reference UPER and OER, asn1c CANONICAL-XER) of the typical value of every '
                    'type of families %s; mutation classes: t=every truncation, s=every single-byte substitution x all 256 values (XML: structural alphabet), '
                    'e=length lie with payload (substitution x256 in the first 6 octets + 48 filler octets, binary syntaxes), a=every byte string of length <=2, thorough adds i/d=insertions/deletions, p=all 2-position substitutions over an 8-symbol alphabet, '
                    'b=length-3 strings; each mutant decoded from an exact-size heap block, then printed, validated, encoded x5, freed; ledger must be empty. '
                    'non-trivial = seed whose mutants reach >= 3 distinct (rc, consumed) outcomes' % ','.join(fams),
               samples=samples, stats=dict(stats), trusted_base=['ASan/UBSan (nonnull-attribute off)', 'allocation ledger (drv/ledger.c)', 'gcc'])
    chk.assumptions.append('"all byte strings" is not finitely enumerable: the claim is for the stated mutation classes around valid encodings')
    return chk.finish(cov)
