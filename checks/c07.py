"""C07: encoder API contract under faults (size accounting, every buffer size, new buffer, callback failure
at every invocation index, unencodable structures: starved decodes at every prefix, all-zero structure,
walker corruptions)."""
from tools import common, corpus
from checks import base
from gen import features, invalid
from ref import asn1ast as A, ber, uper, oer


def run_with_skips(exe, line, maxskip=40):
    """driver sub-cases that abort the process are recorded and skipped on the next attempt"""
    skips, crashes = [], []
    while True:
        l = line + ((' skip=' + ';'.join(skips)) if skips else '')
        r = common.run_driver(exe, [l], watchdog=60)[0]
        if r.crash is None:
            return r, crashes
        label = r.cur[1].decode(errors='replace') if r.cur and r.cur[0] == -1 else None
        crashes.append((label, r.crash))
        if label is None or label in skips or len(skips) >= maxskip:
            return r, crashes
        skips.append(label)


def make_worker(tier):
    def worker(b):
        o = base.Out()
        for c in b.cases:
            if c.family == 'S6' and c.label.startswith('long/'):
                continue
            t = b.mod.types[c.name]
            vals = corpus.case_values(b, c)
            if not vals:
                continue
            n = len(vals)
            pick = [vals[n // 2]] if tier == 'quick' else (list(vals) if n <= 16 else [vals[0], vals[n // 4], vals[n // 2], vals[3 * n // 4], vals[-1]])
            for v, d in pick:
                if len(d) > 600:
                    continue
                fe = features.features(b.mod, t, v)
                mask = ''   # (types without a PER/OER codec used to crash here; repaired, so nothing is masked any more)
                msuf = (' mask=' + mask) if mask else ''
                for mode, cmdline in (('valid', 'encapi %s %s %s%s' % (c.name, d.hex(), 'vpz' + ('2' if tier != 'quick' and len(d) < 40 else ''), msuf)),
                                      ('corrupt', 'xform %s %s c%s' % (c.name, d.hex(), msuf))):
                    r, crashes = run_with_skips(b.exe, cmdline)
                    fl = sorted(fe)
                    for label, crash in crashes:
                        ck, cf = common.crash_sig(crash)
                        sub = (label or '?')
                        subkind = sub.split(':')[0] + ':' + (sub.split(':')[2].split('@')[0].rstrip('0123456789,-/') if sub.count(':') >= 2 else '')
                        syn = next((s for s in ('der', 'oer', 'uper', 'cxer', 'xer') if (':' + s) in sub), 'any')
                        o.v(b, c, 'crash', syn, crash[-1500:], value=v, cmd=cmdline[:3000], observed=crash[-800:], feats=fl,
                            extra=dict(subcase=label, ref_der=d.hex()))
                        o.viol[-1][0]['subcase'] = subkind
                    if r.crash is not None:
                        continue
                    kv, _ = common.parse_kv(r.line)
                    o.stats['evaluations'] += int(kv.get('evals', kv.get('transforms', 0)))
                    o.stats['fired'] += int(kv.get('fired', 0)) + int(kv.get('mandnull', 0)) + int(kv.get('choice', 0)) + int(kv.get('bufnull', 0))
                    if int(kv.get('fired', 0)) or int(kv.get('transforms', 0)):
                        o.distinct.add((c.label, mode, d))
                    if int(kv.get('viol', 0)):
                        for tok in r.line.split():
                            if tok.startswith('v='):
                                x = tok[2:]
                                parts = x.split(':')
                                syn = next((s for s in ('der', 'oer', 'uper', 'cxer', 'xer') if s in parts), 'any')
                                kind = ':'.join(p.rstrip('0123456789') for p in parts[:3])[:60]
                                o.v(b, c, kind, syn, x, value=v, cmd=cmdline[:3000], observed=r.line[:800], feats=fl, extra=dict(ref_der=d.hex()))
                    if len(o.samples) < 1 and mode == 'valid':
                        o.samples.append(dict(type=A.type_text(b.mod, t, 0)[:200], value=repr(v)[:120], cmd=cmdline[:120], result=r.line[:160]))
        # values that violate one constraint (gen/invalid.py) and that the reference PER / OER encoder cannot represent at all (the
        # constraint is PER-visible and not extensible): the encoder must answer -1, not a positive size
        lines, meta = [], []
        for c in b.cases:
            if c.family == 'S6' and c.label.startswith('long/'):
                continue
            t = b.mod.types[c.name]
            try:
                cands = invalid.one_violation(b.mod, t)
            except Exception:
                continue
            seen = set()
            for v, what, path in cands[:40]:
                try:
                    d = ber.der(b.mod, t, v)
                    if invalid.valid(b.mod, t, v) is not False or d in seen or len(d) > 2000:
                        continue
                except Exception:
                    continue
                seen.add(d)
                for syn, fn in (('uper', uper.encode), ('oer', oer.encode)):
                    try:
                        fn(b.mod, t, v)
                        continue                        # representable in this syntax (constraint not visible there): no verdict
                    except (ValueError, OverflowError, AssertionError, KeyError, IndexError):
                        pass
                    except Exception:
                        continue
                    lines.append('enc %s %s %s' % (c.name, syn, d.hex())); meta.append((c, v, d, syn, what))
        res = common.run_driver(b.exe, lines, watchdog=20)
        for (c, v, d, syn, what), r, line in zip(meta, res, lines):
            o.stats['evaluations'] += 1
            o.stats['unencodable_values'] += 1
            try:
                fl = sorted(features.features(b.mod, b.mod.types[c.name], v))
            except Exception:
                fl = ['k:' + b.mod.resolve(b.mod.types[c.name]).kind]
            if r.crash is not None:
                o.v(b, c, 'crash', syn, r.crash[-1500:], value=v, cmd=line[:3000], observed=r.crash[-800:], feats=fl, extra=dict(violation=what))
                continue
            if ' out=' in r.line and ' out=E' not in r.line and 'decode' not in r.line.split(' out=')[0]:
                o.v(b, c, 'unencodable_value_encoded', syn, 'constraint violation "%s": the reference encoder cannot represent the value, %s returned %s' % (what, syn, r.line.split(' out=')[1][:80]),
                    value=v, cmd=line[:3000], observed=r.line[:400], feats=fl, extra=dict(violation=what, ref_der=d.hex()[:400]))
                o.viol[-1][0]['violation'] = what.split(':')[0]
        return o
    return worker


def run(args):
    chk = common.Check('C07', 'fault_enumeration', args.tier)
    fams = base.families_for(args.tier, args.families, quick=('S0', 'S1', 'S2', 'S4', 'S5'), thorough=('S0', 'S1', 'S2', 'S4', 'S5'))
    stats, distinct, samples = base.run_sweep(chk, args, make_worker(args.tier), fams=fams, shape_tier='quick')
    cov = dict(evaluations=stats['evaluations'], distinct_nontrivial=len(distinct), faults_fired=stats['fired'],
               rule='for the typical (thorough: also first/last) value of every type of families %s and each of the 5 encoders: counting callback vs reported size; '
                    'asn_encode_to_buffer with EVERY buffer size 0..n+1 (exact-size heap block); asn_encode_to_new_buffer; callback returning -1 at EVERY invocation index '
                    '(thorough: all pairs); structures decoded from EVERY proper prefix; the RESET (all-zero) structure; walker corruptions (each mandatory pointer NULL, '
                    'CHOICE selector 0 and count+1, buf==NULL with size>0). Oracle: sizes agree, no write beyond buffer (ASan), failure => -1 with errno (EIO for callback), '
                    'no abort/sanitizer report/hang. non-trivial = (type,value,mode) where at least one fault actually fired' % ','.join(fams),
               samples=samples, stats=dict(stats), trusted_base=['ASan/UBSan', 'exact-size buffers', 'drv/encapi.c, drv/xform.c'])
    return chk.finish(cov)
