"""C20: unber and enber are mutually inverse; unber is safe on arbitrary input.

Both tools are built out of tree from the current /repo sources with ASan+UBSan:
  * the stand-alone executables `unber` and `enber` (used for the cross-check sample, for confirming every
    reported class and for the deep-nesting probe), and
  * drv/unberdrv.c, which links the *same* main() functions (-Dmain=unber_main / -Dmain=enber_main) and runs
    `unber -p -` / `enber -` / `unber -` for many inputs, each in a forked child with memfds as fd 0/1/2.

Oracle for a well-formed x (reference: ref.ber.parse_tlv):
  unber exit 0; its output, parsed line by line, is exactly the pre-order walk of the reference TLV forest
  (form letter P/C/I, O= offset, T= class+number, TL= identifier+length octets, V= content length or
  "Indefinite", primitive contents as &#xNN;, closing </C O=end L=total>, </I O=offset-of-EOC T=[UNIVERSAL 0]
  TL=2 L=total>, indentation 4*depth); enber exit 0 and enber(unber -p x) == x.
Oracle for arbitrary bytes: the child returns within the watchdog, is not killed by a signal, prints no
sanitizer report, and either exits 0 or exits non-zero with a diagnostic on stderr.  This part is applied to
`unber -p` and to `unber` in its default pretty-printing mode (INTEGER/OID/string formatting code), on every input.
"""
import os, re, shutil, subprocess, collections, glob, json, threading, time
import multiprocessing as mp
from concurrent.futures import ThreadPoolExecutor
from tools import build, common
from gen import typegen, values
from ref import ber

REPO = build.REPO
NUMS = (0, 30, 31, 127, 128, 16383, 16384, 1 << 28)
LENS = (0, 1, 127, 128, 255, 256)
CLSNAME = {0: 'UNIVERSAL ', 1: 'APPLICATION ', 2: '', 3: 'PRIVATE '}
CLSNUM = {v: k for k, v in CLSNAME.items()}
MAXLEN = 4096          # corpus encodings longer than this are left out (the crafted family has the big ones)
VIOL_CAP = 40          # stored replays per (kind, case); totals are in stats


# ---------------------------------------------------------------------------------------------- build

def build_tools(wdir):
    """unber, enber (stand-alone, ASan), unber_plain (no sanitizer), unberdrv; all from the current tree"""
    os.makedirs(wdir, exist_ok=True)
    cfl, ldf = build.FLAVOURS['asan']
    inc = ['-DHAVE_CONFIG_H']
    if os.path.exists(os.path.join(REPO, 'config.h')):
        inc.append('-I' + REPO)
    else:
        with open(os.path.join(wdir, 'config.h'), 'w') as f:
            f.write(build.CONFIG_FALLBACK)
        inc.append('-I' + wdir)
    inc += ['-I' + os.path.join(REPO, d) for d in ('libasn1common', 'libasn1parser', 'skeletons')]
    tool = os.path.join(REPO, 'asn1-tools')
    lib_c = os.path.join(tool, 'unber', 'libasn1_unber_tool.c')
    unber_c = os.path.join(tool, 'unber', 'unber.c')
    enber_c = os.path.join(tool, 'enber', 'enber.c')
    com = sorted(glob.glob(os.path.join(REPO, 'libasn1common', '*.c')))
    o = lambda n: os.path.join(wdir, n + '.o')
    san = list(cfl) + ['-w'] + inc
    plain = ['-O1', '-g', '-w'] + inc
    jobs = [(lib_c, o('lib'), san), (unber_c, o('unber'), san), (enber_c, o('enber'), san),
            (unber_c, o('d_unber'), san + ['-Dmain=unber_main']), (enber_c, o('d_enber'), san + ['-Dmain=enber_main']),
            (os.path.join(build.VERIF, 'drv', 'unberdrv.c'), o('drv'), list(cfl) + ['-Wall']),
            (lib_c, o('p_lib'), plain), (unber_c, o('p_unber'), plain)]
    cobj, pobj = [], []
    for c in com:
        b = os.path.basename(c)[:-2]
        jobs.append((c, o('c_' + b), san))
        jobs.append((c, o('pc_' + b), plain))
        cobj.append(o('c_' + b))
        pobj.append(o('pc_' + b))
    build._compile_many(jobs)
    # enber.c #includes the same skeleton sources as libasn1_unber_tool.c: keep only its entry point global
    r = build.run(['objcopy', '--keep-global-symbol=enber_main', o('d_enber')])
    if r.returncode:
        raise build.BuildError('objcopy failed: ' + r.stderr.decode()[:2000])

    def link(out, objs, ld):
        r = build.run([build.CC] + ld + objs + ['-o', os.path.join(wdir, out)])
        if r.returncode:
            raise build.BuildError('link %s failed: %s' % (out, r.stderr.decode()[:3000]))
        return os.path.join(wdir, out)
    return dict(unber=link('unber', [o('unber'), o('lib')] + cobj, ldf),
                enber=link('enber', [o('enber')], ldf),
                unber_plain=link('unber_plain', [o('p_unber'), o('p_lib')] + pobj, []),
                drv=link('unberdrv', [o('drv'), o('d_unber'), o('d_enber'), o('lib')] + cobj, ldf))


# ---------------------------------------------------------------------------------------------- reference

def parse_forest(x):
    """every top-level TLV of x (unber decodes until EOF); raises ValueError unless x is consumed exactly"""
    nodes, off = [], 0
    while off < len(x):
        n = ber.parse_tlv(x, off)
        nodes.append(n)
        off = n['end']
    return nodes


def _hdr(x, n):
    """(identifier octets, length octets) of node n"""
    off = n['off']
    t = 1
    if x[off] & 0x1f == 0x1f:
        while x[off + t] & 0x80:
            t += 1
        t += 1
    return x[off:off + t], x[off + t:off + n['hlen']]


def wellformed(x):
    """the reference forest if x is a well-formed BER string inside the tools' documented number ranges, else None.
    Beyond ref.ber.parse_tlv: identifier octets minimal (X.690 8.1.2.2, 8.1.2.4.2 c), first length octet != 0xFF
    (8.1.3.5 c); tag number < 2^30 and at most 8 length octets (ber_tlv_tag_t is 32 bits wide, ber_tlv_len_t 64:
    beyond that unber prints a diagnostic, which is the arbitrary-input oracle's business)."""
    if not x:
        return None
    try:
        nodes = parse_forest(x)
    except (ValueError, IndexError):
        return None
    st = list(nodes)
    while st:
        n = st.pop()
        idb, lb = _hdr(x, n)
        if len(idb) > 1 and (idb[1] == 0x80 or n['num'] < 31):
            return None
        if n['num'] >= 1 << 30:
            return None
        if lb[0] == 0xff or len(lb) > 9:
            return None
        st.extend(n['children'])
    return nodes


def expected_events(x, nodes):
    ev = []

    def walk(n, d):
        tag = (n['cls'], n['num'])
        if not n['constructed']:
            ev.append(('P', d, n['off'], tag, n['hlen'], n['length'], bytes(x[n['off'] + n['hlen']:n['end']])))
            return
        if n['length'] is None:
            ev.append(('I', d, n['off'], tag, n['hlen'], None))
            for c in n['children']:
                walk(c, d + 1)
            ev.append(('/I', d, n['end'] - 2, (0, 0), 2, n['end'] - n['off']))
        else:
            ev.append(('C', d, n['off'], tag, n['hlen'], n['length']))
            for c in n['children']:
                walk(c, d + 1)
            ev.append(('/C', d, n['end'], tag, None, n['end'] - n['off']))
    for n in nodes:
        walk(n, 0)
    return ev


_TAG = r'T="\[(UNIVERSAL |APPLICATION |PRIVATE |)(\d+)\]"'
RE_OPEN = re.compile(r'^( *)<([CIP]) O="(\d+)" ' + _TAG + r' TL="(\d+)" V="(Indefinite|\d+)"(?: A="[^"<>]*")?>(.*)$')
RE_CLOSE = re.compile(r'^( *)</([CI]) O="(\d+)" ' + _TAG + r'(?: TL="(\d+)")?(?: A="[^"<>]*")? L="(\d+)">$')
RE_VAL = re.compile(r'^((?:&#x[0-9a-f]{2};)*)</P>$')


def observed_events(text):
    """parse `unber -p` output; returns (events, error)"""
    ev = []
    if text and not text.endswith('\n'):
        return ev, 'output does not end with a newline'
    for ln, line in enumerate(text.split('\n')[:-1] if text else []):
        m = RE_OPEN.match(line)
        if m:
            ind, form, o, cn, num, tl, v, rest = m.groups()
            if len(ind) % 4:
                return ev, 'line %d: indentation %d is not a multiple of 4' % (ln + 1, len(ind))
            tag = (CLSNUM[cn], int(num))
            if form == 'P':
                mv = RE_VAL.match(rest)
                if not mv or v == 'Indefinite':
                    return ev, 'line %d: primitive value not in &#xNN; form: %r' % (ln + 1, line[:200])
                ev.append(('P', len(ind) // 4, int(o), tag, int(tl), int(v), bytes.fromhex(mv.group(1).replace('&#x', '').replace(';', ''))))
            else:
                if rest or (form == 'I') != (v == 'Indefinite'):
                    return ev, 'line %d: form letter and V= disagree or trailing text: %r' % (ln + 1, line[:200])
                ev.append((form, len(ind) // 4, int(o), tag, int(tl), None if form == 'I' else int(v)))
            continue
        m = RE_CLOSE.match(line)
        if m:
            ind, form, o, cn, num, tl, L = m.groups()
            if len(ind) % 4:
                return ev, 'line %d: indentation %d is not a multiple of 4' % (ln + 1, len(ind))
            if (form == 'I') != (tl is not None):
                return ev, 'line %d: TL= on a closing tag must appear exactly for </I: %r' % (ln + 1, line[:200])
            ev.append(('/' + form, len(ind) // 4, int(o), (CLSNUM[cn], int(num)), int(tl) if tl else None, int(L)))
            continue
        return ev, 'line %d not understood: %r' % (ln + 1, line[:200])
    return ev, None


FIELDS = {'P': ('form', 'depth', 'O', 'T', 'TL', 'V', 'content'), 'C': ('form', 'depth', 'O', 'T', 'TL', 'V'),
          'I': ('form', 'depth', 'O', 'T', 'TL', 'V'), '/C': ('form', 'depth', 'O', 'T', 'TL', 'L'), '/I': ('form', 'depth', 'O', 'T', 'TL', 'L')}


def compare_events(exp, obs):
    for i, (a, b) in enumerate(zip(exp, obs)):
        if a != b:
            if a[0] != b[0]:
                return 'element %d: expected %s, unber printed %s' % (i, a[:5], b[:5])
            bad = [f for f, p, q in zip(FIELDS[a[0]], a, b) if p != q]
            return 'element %d (%s at offset %d): %s differ: reference %s, unber %s' % (
                i, a[0], a[2], ','.join(bad), [p for f, p in zip(FIELDS[a[0]], a) if f in bad][:4], [q for f, q in zip(FIELDS[a[0]], b) if f in bad][:4])
    if len(exp) != len(obs):
        return 'reference has %d elements/closings, unber printed %d' % (len(exp), len(obs))
    return None


PRIORITY = ('long_form_leading_zero', 'long_form_for_short_length', 'universal_0', 'tag>=2^28', 'indefinite_inside_definite',
            'definite_inside_indefinite', 'indefinite_inside_indefinite', 'indefinite_toplevel', 'multi_toplevel', 'high_tag_number',
            'big_element', 'nested_definite', 'flat')


def classify(x, nodes):
    """(case, nontrivial, maxdepth, feature set)"""
    f = set()
    maxd = 0
    if len(nodes) > 1:
        f.add('multi_toplevel')
    st = [(n, 1, None) for n in nodes]
    while st:
        n, d, pform = st.pop()
        maxd = max(maxd, d)
        idb, lb = _hdr(x, n)
        if n['length'] is None:
            form = 'indef'
            f.add({None: 'indefinite_toplevel', 'def': 'indefinite_inside_definite', 'indef': 'indefinite_inside_indefinite'}[pform])
        else:
            form = 'def'
            if lb != ber.length(n['length']):
                f.add('long_form_leading_zero' if lb[1] == 0 else 'long_form_for_short_length')
            if n['constructed'] and pform == 'indef':
                f.add('definite_inside_indefinite')
            if n['length'] > 1000:
                f.add('big_element')
        if n['num'] >= 1 << 28:
            f.add('tag>=2^28')
        elif n['num'] >= 31:
            f.add('high_tag_number')
        if n['cls'] == 0 and n['num'] == 0:
            f.add('universal_0')
        for c in n['children']:
            st.append((c, d + 1, form))
    if maxd >= 2:
        f.add('nested_definite')
    case = next((p for p in PRIORITY if p in f), 'flat')
    nontrivial = maxd >= 2 or bool(f & {'long_form_leading_zero', 'long_form_for_short_length', 'indefinite_toplevel', 'indefinite_inside_definite', 'indefinite_inside_indefinite'})
    return case, nontrivial, maxd, f


# ---------------------------------------------------------------------------------------------- inputs

def fill(n):
    """n content octets including XML-special, control and high characters"""
    pat = b'<&>\x00\xff\n\r\t "\'A;#x\x7f\x80\x1b]['
    return bytes(pat[i % len(pat)] ^ ((i // len(pat)) & 0x5f) for i in range(n))


def lenoct(n, form):
    if form == 'min':
        return ber.length(n)
    if form == 'lz':
        return ber.length_long_redundant(n)
    if form == 'lz2':
        b = n.to_bytes(max(1, (n.bit_length() + 7) // 8), 'big')
        return bytes([0x82 + len(b)]) + b'\0\0' + b
    if form == 'l1':
        assert n < 128
        return bytes([0x81, n])
    raise ValueError(form)


def tlv(cls, num, constructed, content, form='min'):
    idb = ber.ident(cls, num, constructed)
    if form == 'indef':
        assert constructed
        return idb + b'\x80' + content + b'\0\0'
    return idb + lenoct(len(content), form) + content


def body_of(total):
    """children octets of exactly `total` octets (one OCTET STRING filler, preceded by a NULL when needed)"""
    if total == 0:
        return b''
    if total == 1:
        return None
    for pre in (b'', b'\x05\x00'):
        rest = total - len(pre)
        for n in range(max(0, rest - 6), rest - 1):
            c = tlv(0, 4, False, fill(n))
            if len(c) == rest:
                return pre + c
    raise AssertionError(total)


def crafted(tier):
    out = []
    add = out.append
    # A: single element, every identifier x length form x content length
    for cls in range(4):
        for num in NUMS:
            for n in LENS:
                for form in ('min', 'lz', 'lz2') + (('l1',) if n < 128 else ()):
                    add(tlv(cls, num, False, fill(n), form))
                body = body_of(n)
                if body is None:
                    continue
                for form in ('min', 'lz', 'indef') + (('l1',) if n < 128 else ()):
                    add(tlv(cls, num, True, body, form))
    # B: chains of constructed elements, every definite/indefinite/(redundant long) mix, four sibling layouts
    ids = [(c, n) for n in NUMS for c in range(4)]
    depth = 3 if tier == 'quick' else 6
    forms = ('min', 'indef', 'lz')
    import itertools
    for d in range(1, depth + 1):
        for mix in itertools.product(forms, repeat=d):
            if tier != 'quick' and d >= 5 and mix.count('lz') > 1:
                continue
            for layout in range(4):
                for li, leaflen in enumerate(LENS):
                    for rot in (0, 1):
                        if tier != 'quick' and d >= 4 and (li + layout + rot) % 2:
                            continue
                        k = rot * 13 + li * 3 + layout
                        c, n = ids[k % len(ids)]
                        if (c, n) == (0, 0) and leaflen == 0:
                            c = 2               # 00 00 under an indefinite parent would be the end-of-contents octets
                        cur = tlv(c, n, False, fill(leaflen))
                        for lvl in range(d - 1, -1, -1):
                            k += 5
                            c, n = ids[k % len(ids)]
                            before = tlv(2, lvl, False, fill(1)) if layout & 1 else b''
                            after = tlv(0, 5, False, b'') if layout & 2 else b''
                            cur = tlv(c, n, True, before + cur + after, mix[lvl])
                        add(cur)
    # C: several constructed siblings with independent forms
    for pform in ('min', 'indef'):
        for nkids in (2, 3):
            for kf in itertools.product(('min', 'indef'), (0, 1), repeat=nkids):
                kids = b''
                for i in range(nkids):
                    kids += tlv(2, i, True, tlv(0, 2, False, b'\x07') if kf[2 * i + 1] else b'', kf[2 * i])
                add(tlv(0, 16, True, kids, pform))
                add(tlv(1, 31, True, tlv(0, 17, True, kids, pform) + b'\x01\x01\xff', 'min'))
    # D: several top-level elements in one stream
    tops = [b'\x05\x00', b'\x02\x01\x7f', tlv(0, 16, True, b'\x02\x01\x01', 'indef'), tlv(0, 16, True, b'\x02\x01\x01'),
            tlv(2, 31, True, tlv(0, 16, True, b'', 'indef')), tlv(3, 16384, False, b'<>'), b'\x00\x00', tlv(0, 16, True, b'', 'indef')]
    for a in tops:
        for b in tops:
            add(a + b)
            add(a + b + a)
    # E: long lines for enber's line collector, long content, many children
    for n in (1000, 1364, 1365, 1366, 2729, 2730, 2731, 5000, 70000):
        add(tlv(0, 4, False, fill(n)))
        add(tlv(0, 16, True, tlv(2, 0, False, fill(n)) + b'\x05\x00', 'indef'))
    # F: contents that steer the default mode's pretty-printers (BOOLEAN, INTEGER, ENUMERATED, OID, RELATIVE-OID, strings, times)
    pats = (lambda n: b'\0' * n, lambda n: b'\xff' * n, lambda n: b'\x80' * n, lambda n: b'\x7f' + b'\xff' * (n - 1) if n else b'',
            lambda n: b'\x80' + b'\0' * (n - 1) if n else b'', lambda n: b'\x2b' + b'\xff' * (n - 2) + b'\x7f' if n >= 2 else b'\x2b'[:n],
            lambda n: (b'\x88\x37' * n)[:n], lambda n: fill(n))
    for num in (1, 2, 10, 6, 13, 9):
        for n in range(0, 20):
            for pf in pats:
                add(tlv(0, num, False, pf(n)))
    for num in (3, 4, 7, 12, 18, 19, 20, 21, 22, 23, 24, 25, 26, 27, 28, 30):
        for n in (0, 1, 7, 8, 9, 40):
            add(tlv(0, num, False, fill(n)))
            add(tlv(0, num, False, (b'plain text, ' * 4)[:n]))
            add(tlv(2, num, False, (b'plain text, ' * 4)[:n]))
    # F: output lines around the tools' 8 KiB line buffers: a primitive of n octets prints as one line of indent + header + 6n + 5
    # characters; n, nesting depth and tag are varied so that every residue of the line length around 8191/8192 occurs
    for depth in range(0, 6):
        for cls, num in ((0, 4), (2, 1), (2, 10), (1, 100)):
            for n in range(1330, 1380):
                doc = tlv(cls, num, False, fill(n)) + tlv(0, 2, False, b'\x05') + tlv(0, 16, True, tlv(0, 1, False, b'\xff'))
                for _ in range(depth):
                    doc = tlv(0, 16, True, doc)
                add(doc)
    many = b''.join(tlv(2, i % 31, False, fill(i % 5)) for i in range(300))
    add(tlv(0, 16, True, many))
    add(tlv(0, 16, True, many, 'indef'))
    return out


def corpus_plan(tier):
    """[(tier of typegen, families, k, cap per value)]"""
    if tier == 'quick':
        return [('quick', ['S0', 'S1'], 1, 400)]
    return [('quick', ['S0', 'S1'], 2, 600), ('quick', ['S2', 'S4', 'S6'], 1, 200), ('thorough', ['S3'], 1, 200), ('thorough', ['S1'], 1, 40)]


_GEN = None


def _gen_one(i):
    mod, chunk, k, cap = _GEN[i]
    out, st = set(), collections.Counter()
    for c in chunk:
        if c.label.startswith('long/'):
            continue
        t = mod.types[c.name]
        try:
            vals = values.container_values(mod, t)
        except Exception:
            st['generator_skipped_types'] += 1
            continue
        st['types'] += 1
        for v in vals:
            try:
                vs = ber.variants(lambda ch: ber.encode_policy(mod, t, v, ch), k, cap=cap)
            except Exception:
                st['generator_skipped_values'] += 1
                continue
            st['values'] += 1
            for enc, ch in vs:
                st['encodings'] += 1
                if len(enc) > MAXLEN:
                    st['encodings_over_%d_octets_left_out' % MAXLEN] += 1
                    continue
                out.add(enc)
    return out, st


def corpus_inputs(tier, fams_arg, stats):
    global _GEN
    work = []
    for ttier, fams, k, cap in corpus_plan(tier):
        if fams_arg:
            fams = [f for f in fams if f in fams_arg.split(',')]
            if not fams:
                continue
        cs = typegen.cases(ttier, fams)
        for mod, chunk in typegen.pack(cs, 12, 'T'):
            work.append((mod, chunk, k, cap))
    _GEN = work
    allenc = set()
    with mp.get_context('fork').Pool(min(build.JOBS, max(1, len(work)))) as pool:
        for out, st in pool.imap_unordered(_gen_one, range(len(work)), chunksize=1):
            allenc |= out
            for kk, vv in st.items():
                stats['corpus_' + kk] += vv
    return sorted(allenc, key=lambda b: (len(b), b))


def seeds(corpus):
    s = [bytes.fromhex(h) for h in (
        '020105', '0500', '0403616263', '3006020101040141', '30800201010000', 'a08030800201010000' '0000',
        '300ba1800201010000' '04026162', '3080a10302010104026162' '0000', '1f1f0100', '5f810001aa', 'dfff7f00',
        'bf818000020500', '9f818080800001ff', '048103616263', '04820003616263', '2480040161040162' '0000',
        '030204f0', '06032a0304', '0101ff', '090380fb01', '3100', '30800000', '0201010500', '308030803080' '000000000000',
        '6003800100', '0000', 'e080c000' '0000', '3003020101' '308005000000', '0c0568263c3e6c', '13025553',
        '060a2bffffffffffffffff7f', '0d03813403', '0209008000000000000000', '02088000000000000000')]
    # plus three short corpus encodings that nest and use a non-canonical form
    extra = []
    for x in corpus:
        if len(extra) >= 3 or len(x) > 24:
            break
        if len(x) < 12:
            continue
        nodes = wellformed(x)
        if nodes and classify(x, nodes)[0] in ('indefinite_inside_definite', 'definite_inside_indefinite', 'indefinite_inside_indefinite') \
                and all(classify(x, nodes)[0] != classify(e, wellformed(e))[0] for e in extra):
            extra.append(x)
    return s + extra


def mutations(seedset, tier):
    out = []
    for s in seedset:
        for i in range(len(s)):
            out.append(s[:i])
        for i in range(len(s)):
            vals = range(256) if tier != 'quick' else (0x00, 0x01, 0x7f, 0x80, 0x81, 0xfe, 0xff, s[i] ^ 0x80)
            for v in vals:
                out.append(s[:i] + bytes([v]) + s[i + 1:])
    return out


def short_strings():
    out = [b'']
    out += [bytes([a]) for a in range(256)]
    out += [bytes([a, b]) for a in range(256) for b in range(256)]
    return out


# ---------------------------------------------------------------------------------------------- evaluation

_INPUTS = None     # list of (bytes, origin)
_DRV = None
_SAMPLE = None     # indices whose raw driver result is returned for the executable cross-check
SAN_RE = re.compile(r'AddressSanitizer|runtime error:|LeakSanitizer|UndefinedBehaviorSanitizer')


def _kv(line):
    d = {}
    for tok in line.split()[1:]:
        k, _, v = tok.partition('=')
        d[k] = v
    return d


def _unhex(s):
    return b'' if s in (None, '-', '') else bytes.fromhex(s)


def _bad_exit(st, err):
    """classification of an abnormal end of a tool: (kind, detail) or None"""
    text = err.decode('latin-1')
    if st == 'sig14':
        return 'timeout', 'watchdog (10 s) expired', None
    if st.startswith('sig') or SAN_RE.search(text):
        ck, cf = common.crash_sig(text)
        if ck == 'crash':
            ck = st
        return 'crash', '%s in %s (status %s)' % (ck, cf, st), '%s@%s' % (ck, cf)
    return None


def judge(x, origin, nodes, kv):
    """all violations of one evaluated input: list of (kind, detail[, case]); crashes are classed by their
    sanitizer kind and first /repo frame instead of the structure of the input"""
    out = []
    # default (pretty-printing) mode: safety, and success on well-formed input
    ds, de = kv.get('ds'), _unhex(kv.get('de'))
    bad = _bad_exit(ds, de)
    if bad:
        out.append(('unber_default_mode_' + bad[0], bad[1] + ': ' + de.decode('latin-1')[-1200:], bad[2]))
    elif ds != '0' and not de.strip():
        out.append(('unber_default_mode_silent_failure', 'exit status %s without any diagnostic on stderr' % ds))
    elif ds != '0' and nodes is not None:
        out.append(('unber_default_mode_rejects_wellformed', 'exit status %s: %s' % (ds, de.decode('latin-1')[:300])))
    # -p mode
    us, uo, ue = kv.get('us'), _unhex(kv.get('uo')), _unhex(kv.get('ue'))
    bad = _bad_exit(us, ue)
    if bad:
        return out + [('unber_' + bad[0], bad[1] + ': ' + ue.decode('latin-1')[-1200:], bad[2])]
    if us != '0' and not ue.strip():
        return out + [('unber_silent_failure', 'exit status %s without any diagnostic on stderr' % us)]
    if nodes is None:
        return out
    if us != '0':
        return out + [('unber_rejects_wellformed', 'exit status %s: %s' % (us, ue.decode('latin-1')[:300]))]
    obs, err = observed_events(uo.decode('latin-1'))
    diff = err or compare_events(expected_events(x, nodes), obs)
    if diff:
        out.append(('unber_output_mismatch', diff))
    if 'es' not in kv:
        out.append(('enber_not_run', 'unber printed nothing'))
        return out
    es, eo, ee = kv['es'], _unhex(kv.get('eo')), _unhex(kv.get('ee'))
    bad = _bad_exit(es, ee)
    if bad:
        out.append(('enber_' + bad[0], bad[1] + ': ' + ee.decode('latin-1')[-1200:], bad[2]))
    elif es != '0':
        out.append(('enber_fails', 'exit status %s: %s' % (es, ee.decode('latin-1')[:300])))
    elif eo != x:
        i = next((i for i, (a, b) in enumerate(zip(eo, x)) if a != b), min(len(eo), len(x)))
        out.append(('roundtrip_mismatch', 'enber produced %d octets for %d; first difference at offset %d' % (len(eo), len(x), i)))
    return out


def mutation_case(x):
    if len(x) <= 2:
        return 'bytes_len<=2'
    return 'mutated_seed'


def _eval(rng):
    a, b = rng
    items = _INPUTS[a:b]
    lines, metas = [], []
    st = collections.Counter()
    for x, origin in items:
        nodes = wellformed(x)
        if nodes is None and origin in ('corpus', 'crafted'):
            raise RuntimeError('generator self-check: %s input is not well-formed for the reference: %s' % (origin, x.hex()[:200]))
        lines.append('%s %s' % ('ued' if nodes else 'ud', x.hex() or '-'))
        metas.append(nodes)
    res = common.run_driver(_DRV, lines, watchdog=10)
    viol, samples, raw = [], [], {}
    nontriv = 0
    per_sig = collections.Counter()
    for i, ((x, origin), nodes, r) in enumerate(zip(items, metas, res)):
        if r.crash is not None or not r.line.startswith('res '):
            raise RuntimeError('driver failure on %s: %s' % (x.hex()[:200], (r.crash or r.line)[-2000:]))
        kv = _kv(r.line)
        st['evaluations'] += 1
        st['origin_' + origin] += 1
        if nodes:
            case, nt, maxd, feats = classify(x, nodes)
            st['wellformed'] += 1
            st['wellformed_from_' + origin] += 1
            st['case_' + case] += 1
            st['depth_%d' % min(maxd, 8)] += 1
            nontriv += nt
            if a + i in _SAMPLE:
                raw[a + i] = (kv.get('us'), kv.get('uo'), kv.get('es'), kv.get('eo'))
        else:
            case = mutation_case(x)
            st['not_wellformed_exit_' + ('0' if kv.get('us') == '0' else 'diagnostic' if not kv.get('us', '').startswith('sig') else 'signal')] += 1
        struct_case = case
        for v in judge(x, origin, nodes, kv):
            kind, detail = v[0], v[1]
            case = (v[2] if len(v) > 2 and v[2] else struct_case)
            st['viol:%s:%s' % (kind, case)] += 1
            per_sig[(kind, case)] += 1
            if per_sig[(kind, case)] <= 3:
                viol.append((dict(kind=kind, case=case, syntax='ber'),
                             dict(input=x.hex() if len(x) <= 6000 else x[:6000].hex() + '...(%d octets)' % len(x), origin=origin, structure=struct_case,
                                  unber_status=kv.get('us'), unber_output=_unhex(kv.get('uo')).decode('latin-1')[:6000],
                                  unber_stderr=_unhex(kv.get('ue')).decode('latin-1')[-3000:],
                                  enber_status=kv.get('es'), enber_output=_unhex(kv.get('eo')).hex()[:12000],
                                  enber_stderr=_unhex(kv.get('ee')).decode('latin-1')[-3000:],
                                  unber_default_mode_status=kv.get('ds'), unber_default_mode_stderr=_unhex(kv.get('de')).decode('latin-1')[-3000:], detail=detail,
                                  how='xxd -r -p <<< $input > x.ber; unber -p x.ber | enber - | cmp - x.ber')))
    return st, viol, nontriv, raw


def run_pipeline(exes, x, wdir, tag):
    """the documented pipeline with the stand-alone executables: unber -p file | enber -"""
    p = os.path.join(wdir, 'x-%s.ber' % tag)
    with open(p, 'wb') as f:
        f.write(x)
    try:
        u = subprocess.run([exes['unber'], '-p', p], stdout=subprocess.PIPE, stderr=subprocess.PIPE, env=common.ASAN_ENV, timeout=60)
        e = None
        if u.stdout:
            e = subprocess.run([exes['enber'], '-'], input=u.stdout, stdout=subprocess.PIPE, stderr=subprocess.PIPE, env=common.ASAN_ENV, timeout=60)
    finally:
        os.unlink(p)
    return u, e


def _st(p):
    if p is None:
        return None
    return 'sig%d' % -p.returncode if p.returncode < 0 else str(p.returncode)


# ---------------------------------------------------------------------------------------------- deep nesting

def deep_probe(exes, wdir, out):
    """unbounded recursion: N nested indefinite-length SEQUENCEs (2N octets, truncated: unber must print a diagnostic).
    -i 0 keeps the output linear in N.  The ASan build and a build without any sanitizer are both tried."""
    res = []
    for name, exe, ladder in (('asan', exes['unber'], (1000, 4000, 16000)), ('plain', exes['unber_plain'], (4000, 60000))):
        for n in ladder:
            p = os.path.join(wdir, 'deep-%s-%d.ber' % (name, n))
            with open(p, 'wb') as f:
                f.write(b'\x30\x80' * n)
            t0 = time.time()
            try:
                r = subprocess.run([exe, '-p', '-i', '0', p], stdout=subprocess.DEVNULL, stderr=subprocess.PIPE, env=common.ASAN_ENV, timeout=300)
                rc, err = r.returncode, r.stderr.decode('latin-1')
            except subprocess.TimeoutExpired:
                rc, err = None, 'timeout 300 s'
            os.unlink(p)
            res.append(dict(build=name, depth=n, octets=2 * n, status=rc, seconds=round(time.time() - t0, 1), stderr=err if len(err) < 3000 else err[:1200] + '\n...\n' + err[-1500:]))
            if rc is None or rc < 0 or SAN_RE.search(err):
                break
    out.extend(res)


# ---------------------------------------------------------------------------------------------- main

def replay(args):
    r = json.load(open(args.replay))
    wdir = os.path.join(build.BUILD, 'c20-%d' % os.getpid())
    try:
        exes = build_tools(wdir)
        if r.get('input_repeat'):
            x = bytes.fromhex(r['input_repeat']['unit']) * r['input_repeat']['count']
        else:
            x = bytes.fromhex(r['input'].split('...')[0])
        print('signature:', json.dumps(r.get('signature')))
        if r.get('input_repeat'):
            fp = os.path.join(wdir, 'deep.ber')
            with open(fp, 'wb') as f:
                f.write(x)
            exe = exes['unber_plain' if r.get('build') == 'plain' else 'unber']
            u = subprocess.run([exe, '-p', '-i', '0', fp], stdout=subprocess.DEVNULL, stderr=subprocess.PIPE, env=common.ASAN_ENV, timeout=600)
            print('unber -p -i 0 (%s build, %d octets): status %s\n%s' % (r.get('build'), len(x), _st(u), u.stderr.decode('latin-1')[:1500]))
        else:
            u, e = run_pipeline(exes, x, wdir, 'replay')
            print('unber -p: status %s\n%s%s' % (_st(u), u.stdout.decode('latin-1')[:4000], u.stderr.decode('latin-1')[-3000:]))
            if e is not None:
                print('enber -: status %s output %s (%s)\n%s' % (_st(e), e.stdout.hex()[:4000], 'identical to the input' if e.stdout == x else 'DIFFERS from the input', e.stderr.decode('latin-1')[-3000:]))
            fp = os.path.join(wdir, 'x.ber')
            with open(fp, 'wb') as f:
                f.write(x)
            u = subprocess.run([exes['unber'], fp], stdout=subprocess.PIPE, stderr=subprocess.PIPE, env=common.ASAN_ENV, timeout=60)
            print('unber (default mode): status %s\n%s%s' % (_st(u), u.stdout.decode('latin-1')[:2000], u.stderr.decode('latin-1')[:3000]))
        print('recorded detail:', str(r.get('detail'))[:2000])
    finally:
        shutil.rmtree(wdir, ignore_errors=True)
    return 0


def run(args):
    global _INPUTS, _DRV, _SAMPLE
    if getattr(args, 'replay', None):
        return replay(args)
    tier = args.tier
    chk = common.Check('C20', 'exploration', tier)
    wdir = os.path.join(build.BUILD, 'c20-%d' % os.getpid())
    shutil.rmtree(wdir, ignore_errors=True)
    stats = collections.Counter()
    try:
        exes = build_tools(wdir)
        deep = []
        th = threading.Thread(target=deep_probe, args=(exes, wdir, deep))
        th.start()

        # ---- inputs
        corp = corpus_inputs(tier, getattr(args, 'families', None), stats)
        craft = crafted(tier)
        sd = seeds(corp)
        for s in sd:
            if wellformed(s) is None:
                raise RuntimeError('seed is not well-formed: ' + s.hex())
        seen, inputs = set(), []
        for origin, xs in (('crafted', craft), ('corpus', corp), ('seed', sd), ('mutation', mutations(sd, tier)), ('short', short_strings())):
            for x in xs:
                if x not in seen:
                    seen.add(x)
                    inputs.append((x, origin))
        del seen
        _INPUTS, _DRV = inputs, exes['drv']
        wf_idx = [i for i, (x, o) in enumerate(inputs) if o in ('crafted', 'corpus', 'seed')]
        step = max(1, len(wf_idx) // 300)
        _SAMPLE = set(wf_idx[::step])
        stats['inputs'] = len(inputs)

        # ---- evaluation
        size = 400
        rngs = [(a, min(a + size, len(inputs))) for a in range(0, len(inputs), size)]
        nontriv = 0
        raw = {}
        stored = collections.Counter()
        pending = []
        with mp.get_context('fork').Pool(build.JOBS) as pool:
            for st, viol, nt, rw in pool.imap_unordered(_eval, rngs, chunksize=1):
                stats.update(st)
                nontriv += nt
                raw.update(rw)
                for sig, rep in viol:
                    key = (sig['kind'], sig['case'])
                    stored[key] += 1
                    if stored[key] <= VIOL_CAP:
                        pending.append((sig, rep))

        # ---- the stand-alone executables agree with the driver on a sample of the well-formed inputs
        def cross(i):
            x = inputs[i][0]
            u, e = run_pipeline(exes, x, wdir, 's%d' % i)
            got = (_st(u), u.stdout.hex() or '-', _st(e), (e.stdout.hex() or '-') if e is not None else None)
            return i, got
        with ThreadPoolExecutor(build.JOBS) as ex:
            for i, got in ex.map(cross, sorted(raw)):
                stats['executables_cross_checked'] += 1
                if got != raw[i]:
                    raise RuntimeError('driver and stand-alone executables disagree on %s:\n driver %s\n tools  %s' % (inputs[i][0].hex()[:400], str(raw[i])[:1500], str(got)[:1500]))

        # ---- every reported class is confirmed with the stand-alone executables (first witness of each)
        confirmed = {}
        for sig, rep in pending:
            key = (sig['kind'], sig['case'])
            if key not in confirmed and '...' not in rep['input']:
                x = bytes.fromhex(rep['input'])
                try:
                    if sig['kind'].startswith('unber_default_mode'):
                        fp = os.path.join(wdir, 'cd%d.ber' % len(confirmed))
                        with open(fp, 'wb') as f:
                            f.write(x)
                        u = subprocess.run([exes['unber'], fp], stdout=subprocess.PIPE, stderr=subprocess.PIPE, env=common.ASAN_ENV, timeout=60)
                        os.unlink(fp)
                        same = _st(u) == rep['unber_default_mode_status'] and bool(SAN_RE.search(u.stderr.decode('latin-1'))) == bool(SAN_RE.search(rep['unber_default_mode_stderr']))
                    else:
                        u, e = run_pipeline(exes, x, wdir, 'c%d' % len(confirmed))
                        same = (_st(u) == rep['unber_status'] and u.stdout.decode('latin-1')[:6000] == rep['unber_output']
                                and (_st(e) if e is not None else None) == rep['enber_status'] and ((e.stdout.hex()[:12000] if e is not None else '') == rep['enber_output']))
                except subprocess.TimeoutExpired:
                    same = sig['kind'].endswith('timeout')
                confirmed[key] = same
                rep['confirmed_with_standalone_executables'] = same
        for sig, rep in pending:
            chk.violation(sig, rep)

        # ---- deep nesting
        th.join()
        for d in deep:
            stats['deep_probe_runs'] += 1
            crashed = d['status'] is None or d['status'] < 0 or SAN_RE.search(d['stderr'])
            if crashed:
                kind = 'unber_timeout' if d['status'] is None else 'unber_crash'
                ck, cf = common.crash_sig(d['stderr'])
                if d['status'] is not None and d['status'] < 0 and ck == 'crash':
                    ck = 'signal %d' % -d['status']
                rep = dict(input_repeat=dict(unit='3080', count=d['depth']), unber_output='(discarded)', enber_output='',
                           unber_status='timeout' if d['status'] is None else 'sig%d' % -d['status'] if d['status'] < 0 else str(d['status']),
                           unber_stderr=d['stderr'], build=d['build'], seconds=d['seconds'],
                           detail='%d nested indefinite-length SEQUENCE headers (%d octets), `unber -p -i 0`, %s build: %s in %s; process_deeper() '
                                  'recurses once per nesting level without any bound' % (d['depth'], d['octets'], d['build'], ck, cf),
                           how="python3 -c \"import sys; sys.stdout.buffer.write(b'\\x30\\x80'*%d)\" > deep.ber; unber -p -i 0 deep.ber > /dev/null" % d['depth'])
                if d['depth'] <= 20000:
                    rep['input'] = ('3080' * d['depth'])
                stats['viol:%s:deep_nesting_stack_overflow' % kind] += 1
                chk.violation(dict(kind=kind, case='deep_nesting_stack_overflow', syntax='ber'), rep)
            elif d['status'] == 0 or not d['stderr'].strip():
                stats['viol:unber_silent_failure:deep_nesting'] += 1
                chk.violation(dict(kind='unber_silent_failure', case='deep_nesting', syntax='ber'),
                              dict(input_repeat=dict(unit='3080', count=d['depth']), detail='truncated input: status %s and stderr %r' % (d['status'], d['stderr'][:200])))
        samples = []
        for want in ('indefinite_inside_definite', 'definite_inside_indefinite', 'tag>=2^28', 'long_form_leading_zero', 'multi_toplevel', 'indefinite_inside_indefinite'):
            for x, o in inputs[:len(craft)]:
                if len(x) <= 40 and o in ('crafted', 'corpus'):
                    nodes = wellformed(x)
                    if nodes and classify(x, nodes)[0] == want and classify(x, nodes)[2] >= 2:
                        samples.append(dict(input=x.hex(), origin=o, case=want))
                        break
        plan = corpus_plan(tier)
        cov = dict(
            evaluations=stats['evaluations'], distinct_nontrivial=nontriv,
            rule='well-formed inputs (round trip through `unber -p -` and `enber -`, every printed O=/T=/TL=/V=/L= attribute, form letter, '
                 'indentation and primitive content compared with ref.ber.parse_tlv): (a) every BER encoding with at most k non-canonical choices '
                 '(length forms, indefinite, constructed strings, SET orders, DEFAULT presence, unknown extensions) of every boundary value of the '
                 'generated types %s, at most %d octets; (b) crafted TLVs: class 0..3 x tag number {0,30,31,127,128,16383,16384,2^28} x primitive/'
                 'constructed x length form {minimal, long with one/two leading zero octets, 0x81 for <128, indefinite} x content length '
                 '{0,1,127,128,255,256}; every chain of <=%d constructed levels over {definite, indefinite, redundant long} per level x 4 sibling '
                 'layouts x 6 leaf lengths; sibling groups with independent forms; pairs/triples of top-level elements; elements of 1000..70000 '
                 'octets; UNIVERSAL 1,2,6,9,10,13 with 0..19 content octets x 8 patterns and 16 string/time tags (pretty-printer inputs). '
                 'Arbitrary bytes (`unber -p` and `unber` in default pretty-printing mode, run on every input of every class, must end within 10 s '
                 'with exit 0 or a diagnostic, no signal, no sanitizer report; those that happen to be well-formed get the full oracle): every truncation and every single-octet substitution (%s) of %d seeds, all strings '
                 'of length <=2; nesting probe of 1000..60000 indefinite levels. distinct_nontrivial = distinct well-formed inputs with nesting >= 2 '
                 'or a non-canonical length form. Out of the well-formed domain by tool design and answered with a diagnostic: tag numbers >= 2^30, '
                 'more than 8 length octets.' % (
                     '; '.join('%s/%s k=%d' % (t, ','.join(f), k) for t, f, k, c in plan), MAXLEN, 3 if tier == 'quick' else 6,
                     '8 values' if tier == 'quick' else 'all 256 values', len(sd)),
            samples=samples[:6], deep_nesting_probe=[{k: v for k, v in d.items() if k != 'stderr'} for d in deep],
            stats={k: v for k, v in sorted(stats.items())},
            reported_classes={'%s:%s' % k: dict(occurrences=stats['viol:%s:%s' % k], confirmed_with_standalone_executables=confirmed.get(k)) for k in stored},
            trusted_base=['ref/ber.py (parse_tlv, encoder, variant enumerator)', 'gcc, ASan/UBSan', 'drv/unberdrv.c (cross-checked against the stand-alone executables on %d inputs)' % stats['executables_cross_checked']])
        return chk.finish(cov)
    finally:
        shutil.rmtree(wdir, ignore_errors=True)
