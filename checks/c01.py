"""C01: encode-then-decode is the identity in every syntax; transcoding never changes a value."""
from tools import common
from checks import rtsweep


def run(args):
    chk = common.Check('C01', 'exploration', args.tier)
    stats, distinct, samples = rtsweep.sweep(chk, args, True, False)
    cov = dict(evaluations=stats['evaluations'], distinct_nontrivial=len(distinct),
               rule='every (type,value) of shape families %s x one-deviation value alphabet (two-deviation in thorough); each is BER-decoded from the '
                    'reference DER, encoded in 5 syntaxes, decoded back, compared, DER-re-encoded, and transcoded over all ordered syntax pairs; '
                    'non-trivial = DER >= 3 octets and >= 4 pairwise different encodings' % ','.join(rtsweep.families_for(args.tier, args.families)),
               samples=samples, types=stats['types'], values=stats['values'], stats={k: v for k, v in stats.items()},
               trusted_base=['ref/ber.py (reference DER used to build values)', 'gcc', 'ASan/UBSan'])
    return chk.finish(cov)
