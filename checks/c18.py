"""C18: open types governed by an information object set resolve per the object table."""
import os, shutil, itertools, collections
from collections import OrderedDict
from tools import build, common, corpus
from ref.asn1ast import *
from ref import ber, uper
from gen import values as V

ROWS = OrderedDict([
    ('RowInt', (Type('INTEGER'), 'INTEGER')),
    ('RowBool', (Type('BOOLEAN'), 'BOOLEAN')),
    ('RowSeq', (Type('SEQUENCE', root=[Member('a', Type('INTEGER')), Member('b', Type('BOOLEAN'), optional=True)]), 'SEQUENCE { a INTEGER, b BOOLEAN OPTIONAL }')),
    ('RowCh', (Type('CHOICE', root=[Member('x', Type('INTEGER')), Member('y', Type('IA5String'))]), 'CHOICE { x INTEGER, y IA5String }')),
    ('RowOf', (Type('SEQUENCE OF', elem=Type('INTEGER')), 'SEQUENCE OF INTEGER')),
    ('RowStr', (Type('IA5String', size=Cons(1, 8)), 'IA5String (SIZE(1..8))')),
])


def gen_modules(tier):
    """yields (label, module text, info) ; info: rows [(name, id value)], idkind, position, extensible"""
    names = list(ROWS)
    combos = []
    for n in (1, 2, 3) if tier != 'quick' else (1, 2):
        for rows in itertools.combinations(names, n):
            combos.append(rows)
    if tier == 'quick':
        combos = [c for c in combos if len(c) == 1] + [('RowInt', 'RowSeq'), ('RowCh', 'RowOf'), ('RowBool', 'RowStr'), ('RowSeq', 'RowCh')]
    out = []
    for rows in combos:
        for idkind in ('INTEGER', 'OID'):
            for pos in ('mandatory', 'optional', 'extension'):
                for ext in (False, True):
                    if tier == 'quick' and (ext and pos != 'mandatory'):
                        continue
                    ids = [(i + 1) * 5 for i in range(len(rows))]
                    idtxt = (lambda v: str(v)) if idkind == 'INTEGER' else (lambda v: '{ 1 2 %d }' % v)
                    cls = 'CLS ::= CLASS { &id %s UNIQUE, &Type } WITH SYNTAX { &Type IDENTIFIED BY &id }\n' % ('INTEGER' if idkind == 'INTEGER' else 'OBJECT IDENTIFIER')
                    rowdefs = ''.join('%s ::= %s\n' % (r, ROWS[r][1]) for r in rows)
                    objs = ' | '.join('{ %s IDENTIFIED BY %s }' % (r, idtxt(v)) for r, v in zip(rows, ids))
                    oset = 'ObjSet CLS ::= { %s%s }\n' % (objs, ', ...' if ext else '')
                    if pos == 'mandatory':
                        frame = 'Frame ::= SEQUENCE { id CLS.&id ({ObjSet}), val CLS.&Type ({ObjSet}{@id}) }\n'
                    elif pos == 'optional':
                        frame = 'Frame ::= SEQUENCE { id CLS.&id ({ObjSet}), val CLS.&Type ({ObjSet}{@id}) OPTIONAL, tail BOOLEAN }\n'
                    else:
                        frame = 'Frame ::= SEQUENCE { id CLS.&id ({ObjSet}), ..., val CLS.&Type ({ObjSet}{@id}) }\n'
                    text = 'M DEFINITIONS AUTOMATIC TAGS ::= BEGIN\n' + cls + rowdefs + oset + frame + 'END\n'
                    label = '%s/%s/%s/%s' % ('+'.join(rows), idkind, pos, 'ext' if ext else 'closed')
                    out.append((label, text, dict(rows=list(zip(rows, ids)), idkind=idkind, pos=pos, ext=ext)))
    # identifier values at the one/two-octet boundaries of the emitted constants, also under -fwide-types (the row constants are
    # then INTEGER_t initialisers written octet by octet by the compiler)
    for rows in ([('RowInt', 'RowSeq'), ('RowBool', 'RowStr')] if tier == 'quick' else [c for c in combos if len(c) == 2]):
        for ids in ((127, 128), (200, 255), (256, 32767), (1, 129)):
            for opts in ((), ('-fwide-types',)):
                cls = 'CLS ::= CLASS { &id INTEGER UNIQUE, &Type } WITH SYNTAX { &Type IDENTIFIED BY &id }\n'
                rowdefs = ''.join('%s ::= %s\n' % (r, ROWS[r][1]) for r in rows)
                objs = ' | '.join('{ %s IDENTIFIED BY %d }' % (r, v) for r, v in zip(rows, ids))
                text = ('M DEFINITIONS AUTOMATIC TAGS ::= BEGIN\n' + cls + rowdefs + 'ObjSet CLS ::= { %s }\n' % objs +
                        'Frame ::= SEQUENCE { id CLS.&id ({ObjSet}), val CLS.&Type ({ObjSet}{@id}) }\nEND\n')
                label = '%s/INTEGER/mandatory/closed/ids%d_%d%s' % ('+'.join(rows), ids[0], ids[1], '/wide' if opts else '')
                out.append((label, text, dict(rows=list(zip(rows, ids)), idkind='INTEGER', pos='mandatory', ext=False, opts=opts)))
    return out


def frame_der(info, row, idval, rowbytes, tail=True):
    """reference DER of Frame under AUTOMATIC tags: id [0] IMPLICIT, val [1] EXPLICIT (open type), tail [2]"""
    if info['idkind'] == 'INTEGER':
        idc = ber.int_octets(idval)
    else:
        idc = ber.oid_content((1, 2, idval))
    body = bytes([0x80]) + ber.length(len(idc)) + idc
    if rowbytes is not None:
        body += bytes([0xa1]) + ber.length(len(rowbytes)) + rowbytes
    if info['pos'] == 'optional':
        body += b'\x82\x01\xff'
    return b'\x30' + ber.length(len(body)) + body


def run(args):
    chk = common.Check('C18', 'exploration', args.tier)
    mods = gen_modules(args.tier)
    work = os.path.join(build.BUILD, 'c18-%d' % os.getpid())
    shutil.rmtree(work, ignore_errors=True)
    os.makedirs(work)
    rowmod = Module('R', 'AUTOMATIC', OrderedDict((k, v[0]) for k, v in ROWS.items()))
    stats = collections.Counter()
    samples = []
    distinct = set()

    def build_one(i_item):
        i, (label, text, info) = i_item
        wdir = os.path.join(work, 'm%d' % i)
        try:
            g = build.gen_types(text, ['Frame'] + [r for r, _ in info['rows']], wdir, opts=tuple(info.get('opts', ())))
            exe = build.link(os.path.join(wdir, 'drv'), build.drv_objects(corpus.DRV), g)
            shutil.rmtree(os.path.join(wdir, 'gen'), ignore_errors=True)
            return exe, None
        except build.BuildError as e:
            return None, str(e)[:1500]

    from concurrent.futures import ThreadPoolExecutor
    with ThreadPoolExecutor(4) as ex:
        built = list(ex.map(build_one, list(enumerate(mods))))

    def work_one(item):
        (label, text, info), (exe, err) = item
        out = []
        st = collections.Counter()
        if exe is None:
            out.append((dict(kind='module_not_built', rows=label.split('/')[0], shape='/'.join(label.split('/')[1:])), dict(module=text, error=err)))
            return out, st, None
        lines, meta = [], []
        for row, idval in info['rows']:
            rt_ = rowmod.types[row]
            for v in V.container_values(rowmod, rt_)[:14]:
                try:
                    rb = ber.der(rowmod, rt_, v)
                except Exception:
                    continue
                fd = frame_der(info, row, idval, rb)
                lines.append('rt Frame %s' % fd.hex()); meta.append(('good', row, v, fd))
                # identifier of this row with the bytes of every other row type's typical value
                for other, oid_ in info['rows']:
                    if other == row:
                        continue
                    ob = ber.der(rowmod, rowmod.types[other], V.typical(rowmod, rowmod.types[other]))
                    bad = frame_der(info, row, idval, ob)
                    lines.append('dec Frame ber %s pm' % bad.hex()); meta.append(('mismatch:%s_as_%s' % (other, row), row, None, bad))
                # malformed value bytes behind a valid identifier
                for garb in (b'\xff\xff\xff', b'', rb[:-1] if len(rb) > 1 else b'\x05'):
                    bad = frame_der(info, row, idval, garb)
                    lines.append('dec Frame ber %s pm' % bad.hex()); meta.append(('garbage_value', row, None, bad))
            # identifier that has no row
        rb0 = ber.der(rowmod, rowmod.types[info['rows'][0][0]], V.typical(rowmod, rowmod.types[info['rows'][0][0]]))
        norow = frame_der(info, None, 99, rb0)
        lines.append('dec Frame ber %s pm' % norow.hex()); meta.append(('id_without_row', None, None, norow))
        fd0 = frame_der(info, info['rows'][0][0], info['rows'][0][1], rb0)
        lines.append('mut Frame ber %s ts 0' % fd0.hex()); meta.append(('mutation', None, None, fd0))
        res = common.run_driver(exe, lines, watchdog=60)
        for (what, row, v, data), r, line in zip(meta, res, lines):
            st['evaluations'] += 1
            sigbase = dict(rows=label.split('/')[0], shape='/'.join(label.split('/')[1:]), case=what.split(':')[0], row=row)

            def viol(kind, syn, detail):
                s = dict(sigbase, kind=kind, syntax=syn)
                if kind == 'crash':
                    s['crash_kind'], s['crash_site'] = common.crash_sig(detail)
                out.append((s, dict(module=text, type='Frame', cmd=line[:3000], value=repr(v), observed=(r.line or r.crash or '')[:2500], detail=detail[-1500:])))
            if r.crash is not None:
                viol('crash', 'ber', r.crash)
                continue
            kv, flags = common.parse_kv(r.line)
            if what == 'good':
                if kv.get('rc') != '0' or kv.get('consumed', '').split('/')[0] != str(len(data)):
                    viol('valid_frame_rejected', 'ber', r.line[:300])
                    continue
                if 'der0' in flags:
                    viol('frame_der_differs', 'der', 'DER of the decoded frame differs from the reference frame')
                for s in ('der', 'uper', 'xer', 'cxer'):      # the property names BER, XER and PER; open types have no OER encoder at all
                    if kv.get(s, '').startswith('E'):
                        viol('enc_fail', s, 'errno=' + kv[s][1:])
                for f in flags:
                    p = f.split(':')
                    if p[0] in ('der0', 'transbytes'):
                        continue
                    if p[0] == 'dec' and p[1] == 'xer' and p[2] == 'rc0':
                        c_, n_ = p[3][1:].split('/')
                        if int(c_) == int(n_) - 1:
                            continue      # BASIC-XER trailing LF: C01's finding
                    viol({'dec': 'dec_own_output', 'cmp': 'compare_nonzero', 'rder': 'value_changed', 'trans': 'transcode_changed'}.get(p[0], 'flag'), p[1], f)
                # the XER form names the row type that was selected
                x = kv.get('cxer', '')
                if x and not x.startswith('E') and x != 'skip':
                    xt = bytes.fromhex(x).decode(errors='replace')
                    if ('<%s>' % row) not in xt and ('<%s/>' % row) not in xt:
                        viol('wrong_row_type_selected', 'cxer', xt[:200])
                if kv.get('leak') != '0' or kv.get('badfree') != '0':
                    viol('leak', 'any', r.line[-60:])
            elif what == 'mutation':
                if int(kv.get('viol', 0)):
                    viol('mutation_' + kv.get('first', '').split(':')[0], 'ber', kv.get('first', '')[:300])
                st['mutants'] += int(kv.get('n', 0))
            else:
                # negative space: must fail cleanly (RC_OK is only legitimate if the bytes happen to be valid for the paired type, which for these row types they are not)
                if kv.get('leak') != '0' or kv.get('badfree') != '0':
                    viol('leak_after_failed_decode', 'ber', r.line[-80:])
                if kv.get('rc') == '0' and what.startswith('mismatch') :
                    viol('mismatch_accepted', 'ber', r.line[:200])
                if kv.get('rc') == '0' and what == 'id_without_row' and not info['ext']:
                    viol('unknown_identifier_accepted', 'ber', r.line[:200])
        # second pass: the frames' own XER / UPER encodings (taken from the round-trip output above) under truncation and
        # substitution, under every chunk schedule (BER, XER) and through the decode/reset/free lifecycle with allocation faults:
        # an open type's inner value is decoded by a separate decoder whose partial state the holder has to manage
        lines2, meta2 = [], []
        seen_rows = set()
        for (what, row, v, data), r in zip(meta, res):
            if what != 'good' or row in seen_rows or r.crash is not None:
                continue
            kv, _ = common.parse_kv(r.line)
            if kv.get('rc') != '0':
                continue
            seen_rows.add(row)
            encs = [('ber', data.hex())] + [(syn, kv[syn]) for syn in ('cxer', 'uper') if kv.get(syn) and not kv[syn].startswith('E') and kv[syn] not in ('skip', '-')]
            for syn, hx in encs:
                if len(hx) > 1200:
                    continue
                lines2.append('mut Frame %s %s t 0' % (syn, hx)); meta2.append(('mutation', syn, row))
                if syn in ('ber', 'cxer'):
                    lines2.append('chunk Frame %s %s %s' % (syn, hx, 'full' if len(hx) <= 192 else 'k2')); meta2.append(('chunk', syn, row))
                lines2.append('life Frame %s %s 3 1 20000' % (syn, hx)); meta2.append(('life', syn, row))
        res2 = common.run_driver(exe, lines2, watchdog=120)
        for (what, syn, row), r, line in zip(meta2, res2, lines2):
            st['evaluations'] += 1
            sig = dict(rows=label.split('/')[0], shape='/'.join(label.split('/')[1:]), case=what, row=row, syntax=syn)
            if r.crash is not None:
                ck, cs = common.crash_sig(r.crash)
                out.append((dict(sig, kind='crash', crash_kind=ck, crash_site=cs), dict(module=text, type='Frame', cmd=line[:3000], observed=r.crash[-2500:], detail=r.crash[-1500:])))
                continue
            kv, _ = common.parse_kv(r.line)
            if 'oneshot=' in r.line and 'viol=' not in r.line:
                continue        # chunk: the one-shot decode of this syntax is itself not available (C01's matter)
            if int(kv.get('viol', 0)):
                first = kv.get('first') or ' '.join(t[2:] for t in r.line.split() if t.startswith('v='))
                out.append((dict(sig, kind='%s_%s' % (what, first.split(':')[0])), dict(module=text, type='Frame', cmd=line[:3000], observed=r.line[:2500], detail=first[:600])))
            st[what + '_runs'] += 1
        sample = dict(label=label, module=text[:500], commands=len(lines) + len(lines2))
        return out, st, sample

    items = list(zip(mods, built))
    with ThreadPoolExecutor(build.JOBS) as ex:
        for (m, b_), (out, st, sample) in zip(items, ex.map(work_one, items)):
            stats.update(st)
            stats['modules'] += 1
            for s, rep in out:
                chk.violation(s, rep)
            if sample:
                distinct.add(m[0])
                if len(samples) < 3:
                    samples.append(sample)
    shutil.rmtree(work, ignore_errors=True)
    cov = dict(evaluations=stats['evaluations'] + stats['mutants'], distinct_nontrivial=len(distinct), programs=stats['modules'],
               rule='generated CLASS/object-set modules: 1..%d rows out of {INTEGER, BOOLEAN, SEQUENCE, CHOICE, SEQUENCE OF, constrained IA5String} row types (named), identifier field '
                    'INTEGER or OBJECT IDENTIFIER, set closed or extensible, open type member mandatory / OPTIONAL / extension addition. Per row and boundary value: the reference frame DER '
                    '(identifier + row DER as open type) must decode, re-encode to the same DER, round-trip through DER/OER/UPER/XER, and its XER must name the paired row type; '
                    'identifier of row i with the bytes of row j, garbage value bytes, and an identifier without a row must fail cleanly (no crash, empty ledger); plus every truncation and '
                    'single-byte substitution of one frame encoding (C04 oracle)' % (2 if args.tier == 'quick' else 3),
               samples=samples, stats=dict(stats), trusted_base=['ref/ber.py for row and frame DER', 'ASan/UBSan', 'allocation ledger'])
    return chk.finish(cov)
