"""C13: code-generation options never change the wire format.
The C01/C02 oracle (independent reference bytes + round trips) is applied to the same corpus compiled under every
option set; since every set must equal the same reference bytes and decode the reference encodings, any two sets
agree with each other and decode each other's output."""
import itertools
from tools import common
from checks import rtsweep, base
from gen import typegen

OPTIONS = {
    'wide': (['-fwide-types'], [], ()),
    'compound': (['-fcompound-names'], [], ()),
    'indirect': (['-findirect-choice'], [], ()),
    'nodeps': (['-fno-include-deps'], [], ()),
    'quoted': (['-fincludes-quoted'], [], ()),
    'noconstr': (['-fno-constraints'], [], ()),
    'noper': (['-no-gen-PER'], ['ASN_DISABLE_PER_SUPPORT'], ('uper',)),
    'nooer': (['-no-gen-OER'], ['ASN_DISABLE_OER_SUPPORT'], ('oer',)),
}


def option_sets(tier):
    names = list(OPTIONS)
    sets = [()] + [(n,) for n in names]
    if tier == 'quick':
        sets += [('wide', 'indirect'), ('compound', 'noconstr'), ('noper', 'nooer'), ('wide', 'compound', 'indirect', 'nodeps', 'quoted')]
    else:
        sets += list(itertools.combinations(names, 2)) + [tuple(names)]
    return sets


def run(args):
    chk = common.Check('C13', 'exploration', args.tier, also_findings_of=('C01', 'C02'))
    fams = base.families_for(args.tier, args.families, quick=('S0', 'S2', 'S5'), thorough=('S0', 'S1', 'S2', 'S4', 'S5'))
    total = dict(evaluations=0)
    allstats = {}
    distinct_all = set()
    samples_all = []
    sets = option_sets(args.tier)
    # thorough: every pair of options and all eight together, on the quick shape corpus (plus S1 DEFAULT roles and S4); the
    # thorough shape corpus itself is swept under no option by C01/C02 thorough
    cases = typegen.cases('quick', fams)
    if 'S1' not in fams:
        # quick: of family S1 only the DEFAULT roles (the generated default compare/set functions depend on -fwide-types
        # and friends); thorough takes all of S1
        cases += [c for c in typegen.cases('quick', ['S1']) if '/default' in c.label]
    for oset in sets:
        opts, defs, skip = [], [], []
        for n in oset:
            o, d, s = OPTIONS[n]
            opts += o
            defs += d
            skip += list(s)
        before = len(chk.violations)
        stats, distinct, samples = rtsweep.sweep(chk, args, True, True, opts=tuple(opts), defines=tuple(defs), skip_syntax=tuple(skip), fams=fams, cases=cases,
                                                 workname='c13-%d-%s' % (__import__('os').getpid(), '_'.join(oset) or 'none'), two=False,
                                                 extra_sig=dict(options='+'.join(oset) or 'none'))
        for sig, rep in chk.violations[before:]:
            sig['options'] = '+'.join(oset) or 'none'
        allstats['+'.join(oset) or 'none'] = dict(values=stats['values'], types=stats['types'], not_built=stats['types_not_built'])
        total['evaluations'] += stats['evaluations'] + stats['c02_compared:der'] + stats['c02_compared:uper'] + stats['c02_compared:oer']
        distinct_all |= {(oset, x) for x in list(distinct)[:2000]}
        if samples and len(samples_all) < 4:
            samples_all.append(dict(options=list(oset), **samples[0]))
    cov = dict(evaluations=total['evaluations'], distinct_nontrivial=len(distinct_all), programs=len(sets) * max(1, allstats['none']['types']),
               rule='corpus families %s (quick: plus the DEFAULT roles of S1, with DEFAULT values at the content-octet boundaries) compiled under %d option sets (none, every single option of {-fwide-types,-fcompound-names,-findirect-choice,-fno-include-deps,'
                    '-fincludes-quoted,-fno-constraints,-no-gen-PER,-no-gen-OER}, %s); under each set every (type,value) gets the full C01 round-trip/transcoding oracle and '
                    'the C02 byte-exact comparison against the same reference DER/UPER/OER bytes (syntaxes dropped by an option are skipped for that set)' % (
                        ','.join(fams), len(sets), 'selected pairs and a 5-option set' if args.tier == 'quick' else 'all pairs and all eight together, on the quick shape corpus'),
               samples=samples_all, option_sets=allstats, trusted_base=['reference encoders ref/*.py', 'ASan/UBSan'])
    return chk.finish(cov)
