"""C08: asn_check_constraints accepts exactly the values the specification allows."""
from tools import common, corpus
from checks import base
from gen import features, invalid
from ref import asn1ast as A, ber


def make_worker(tier):
    def worker(b):
        o = base.Out()
        lines, meta = [], []
        for c in b.cases:
            if c.family == 'S6' and c.label.startswith('long/'):
                continue
            t = b.mod.types[c.name]
            seen = set()
            cands = [(v, 'valid', '') for v, d in corpus.case_values(b, c)]
            try:
                cands += invalid.one_violation(b.mod, t)
            except Exception as e:
                o.stats['generator_skipped'] += 1
            for v, what, path in cands:
                try:
                    d = ber.der(b.mod, t, v)
                except Exception:
                    continue
                if d in seen or len(d) > 70000:
                    continue
                seen.add(d)
                exp = invalid.valid(b.mod, t, v)
                if exp is None:
                    o.stats['extensible_no_verdict'] += 1
                    continue
                lines.append('cons %s %s' % (c.name, d.hex()))
                meta.append((c, v, d, exp, what, path))
        res = common.run_driver(b.exe, lines, watchdog=20)
        names = set(b.mod.types.keys())
        for (c, v, d, exp, what, path), r, line in zip(meta, res, lines):
            o.stats['evaluations'] += 1
            o.stats['expected_valid' if exp else 'expected_invalid'] += 1
            fe = sorted(features.features(b.mod, b.mod.types[c.name], v))

            def viol(kind, detail):
                o.v(b, c, kind, 'constraints', detail, value=v, cmd=line[:4000], observed=(r.line or r.crash or ''), feats=fe, extra=dict(violation=what, path=path, ref_der=d.hex()[:2000]))
                o.viol[-1][0]['violation'] = what
                o.viol[-1][0]['depth'] = path.count('.') + path.count('[')
            if r.crash is not None:
                viol('crash', r.crash[-1500:])
                continue
            kv, _ = common.parse_kv(r.line)
            if kv.get('rc') != '0':
                o.stats['ber_rejected'] += 1     # the BER decoder refused the value itself (e.g. range of the C type): no verdict to compare
                continue
            if kv.get('same') != '1':
                o.stats['value_not_representable'] += 1   # DER of the decoded structure differs from the intended value: nothing to judge
                continue
            ret = kv.get('ret')
            if not exp:
                o.distinct.add((c.label, what, path, d))
            if exp and ret != '0':
                viol('valid_value_rejected', 'ret=%s msg=%s' % (ret, kv.get('msg')))
            elif not exp and ret == '0':
                viol('invalid_value_accepted', 'violation=%s at %s' % (what, path or '(top)'))
            if kv.get('bad') != '0':
                viol('errbuf_contract', 'bad=%s (1=verdict depends on errbuf size, 2=errlen>=size, 4=not NUL-terminated at errlen, 8=errlen!=0 on success)' % kv.get('bad'))
            if not exp and ret != '0':
                msg = kv.get('msg', '')
                if msg in ('-', ''):
                    viol('empty_message', 'no message for a rejected value')
            if len(o.samples) < 2 and not exp and o.stats['evaluations'] % 37 == 1:
                o.samples.append(dict(type=A.type_text(b.mod, b.mod.types[c.name], 0)[:200], value=repr(v)[:120], violation=what, path=path, result=r.line[:160]))
        return o
    return worker


def run(args):
    chk = common.Check('C08', 'exploration', args.tier)
    fams = base.families_for(args.tier, args.families, quick=('S0', 'S1', 'S2', 'S5'), thorough=('S0', 'S1', 'S2', 'S3', 'S4', 'S5', 'S6'))
    stats, distinct, samples = base.run_sweep(chk, args, make_worker(args.tier), fams=fams)
    cov = dict(evaluations=stats['evaluations'], distinct_nontrivial=len(distinct),
               rule='for every type of families %s: all valid boundary values plus every value violating exactly one non-extensible constraint at exactly one position '
                    '(each INTEGER bound on each side, SIZE bound -1/+1, one character just outside each end / in a hole of each permitted or built-in alphabet, '
                    'OF counts), placed in every member role / nesting the shape family provides; structures are built by ber_decode (which does not validate); '
                    'asn_check_constraints verdict must equal the reference predicate gen/invalid.valid (set semantics), for every errbuf size 0..128 the message '
                    'must be terminated within errlen. non-trivial = distinct one-violation cases' % ','.join(fams),
               samples=samples, stats=dict(stats), trusted_base=['gen/invalid.py reference predicate', 'ref/ber.py', 'ASan/UBSan'])
    return chk.finish(cov)
