"""C15: decoding uses bounded stack and heap proportional to the input.
Attack catalogue x size ladder on the PLAIN build (no sanitizer frames), default 8 MiB stack: deep nesting through
every recursion knot in every syntax, nested constructed strings, nested indefinite lengths in skipped extensions,
maximal length prefixes with nothing behind them, zero-width elements with maximal counts, fragmented PER lengths."""
import os, shutil, collections
from collections import OrderedDict
from tools import build, common, corpus
from gen import typegen
from ref.asn1ast import *
from ref import ber, uper, oer


def the_module():
    T = OrderedDict()
    T['RecOpt'] = Type('SEQUENCE', root=[Member('r', Type('REF', ref='RecOpt'), optional=True), Member('v', Type('INTEGER'))])
    T['RecOf'] = Type('SEQUENCE', root=[Member('kids', Type('SEQUENCE OF', elem=Type('REF', ref='RecOf'))), Member('v', Type('BOOLEAN'))])
    T['RecCh'] = Type('CHOICE', root=[Member('leaf', Type('INTEGER', cons=Cons(0, 255))), Member('node', Type('REF', ref='RecCh'))])
    T['RecExt'] = Type('SEQUENCE', root=[Member('v', Type('INTEGER'))], ext=True, adds=[Member('r', Type('REF', ref='RecExt'), optional=True)])
    T['Oct'] = Type('OCTET STRING')
    T['Bits'] = Type('BIT STRING')
    T['Str'] = Type('IA5String')
    T['U8'] = Type('UTF8String')
    T['Int'] = Type('INTEGER')
    T['Oid'] = Type('OBJECT IDENTIFIER')
    T['Ext'] = Type('SEQUENCE', root=[Member('a', Type('BOOLEAN'))], ext=True)
    T['OfNull'] = Type('SEQUENCE OF', elem=Type('NULL'))
    T['SetOfNull'] = Type('SET OF', elem=Type('NULL'))
    T['OfOne'] = Type('SEQUENCE OF', elem=Type('INTEGER', cons=Cons(3, 3)))
    T['OfBool'] = Type('SEQUENCE OF', elem=Type('BOOLEAN'))
    T['OfEmptySeq'] = Type('SEQUENCE OF', elem=Type('SEQUENCE', root=[]))
    T['OfSized'] = Type('SEQUENCE OF', elem=Type('NULL'), size=Cons(0, 65535))
    return Module('C15', 'AUTOMATIC', T)


def nest_value(kind, depth):
    if kind == 'RecOpt':
        v = {'v': 1}
        for _ in range(depth):
            v = {'r': v, 'v': 1}
        return v
    if kind == 'RecOf':
        v = {'kids': [], 'v': True}
        for _ in range(depth):
            v = {'kids': [v], 'v': True}
        return v
    if kind == 'RecCh':
        v = ('leaf', 7)
        for _ in range(depth):
            v = ('node', v)
        return v
    if kind == 'RecExt':
        v = {'v': 1}
        for _ in range(depth):
            v = {'v': 1, 'r': v}
        return v


def ber_nested(tag, depth, inner, indefinite):
    body = inner
    for _ in range(depth):
        if indefinite:
            body = bytes([tag, 0x80]) + body + b'\0\0'
        else:
            body = bytes([tag]) + ber.length(len(body)) + body
    return body


def attacks(tier):
    import sys
    sys.setrecursionlimit(1000000)
    ladder = [16, 64, 256, 1024, 4096] if tier == 'quick' else [16, 64, 256, 1024, 4096, 16384, 65536, 131072]
    out = []   # (label, type, syntax, bytes, expect)  expect in {'fail_or_ok', 'bounded'}
    mod = the_module()
    for n in ladder:
        # recursion knots: built as raw bytes (the reference encoders recurse in Python, so nesting is written directly)
        out.append(('knot/RecOpt/ber-def/%d' % n, 'RecOpt', 'ber', ber_nested(0x30, n, b'\x81\x01\x01', False)[:0] or _rec_opt_ber(n, False), 'deep'))
        out.append(('knot/RecOpt/ber-indef/%d' % n, 'RecOpt', 'ber', _rec_opt_ber(n, True), 'deep'))
        out.append(('knot/RecOf/ber-def/%d' % n, 'RecOf', 'ber', _rec_of_ber(n), 'deep'))
        out.append(('knot/RecCh/ber-def/%d' % n, 'RecCh', 'ber', _rec_ch_ber(n), 'deep'))
        out.append(('knot/RecOpt/xer/%d' % n, 'RecOpt', 'xer', (b'<RecOpt><r>' * n + b'<v>1</v>' + b'</r><v>1</v></RecOpt>' * n).replace(b'<r><v>1</v></r>', b'<r><RecOptX/></r>')[:0] or _rec_opt_xer(n), 'deep'))
        out.append(('knot/RecCh/xer/%d' % n, 'RecCh', 'xer', b'<RecCh>' + b'<node>' * n + b'<leaf>7</leaf>' + b'</node>' * n + b'</RecCh>', 'deep'))
        out.append(('knot/RecCh/uper/%d' % n, 'RecCh', 'uper', _bits('1' * n + '0' + '00000111'), 'deep'))
        out.append(('knot/RecCh/oer/%d' % n, 'RecCh', 'oer', b'\x81' * n + b'\x80\x07', 'deep'))
        out.append(('knot/RecOpt/oer/%d' % n, 'RecOpt', 'oer', b'\x80' * n + b'\x00' + b'\x01\x01' * (n + 1), 'deep'))
        out.append(('knot/RecOpt/uper/%d' % n, 'RecOpt', 'uper', _bits('1' * n + '0' + '0000000100000001' * (n + 1)), 'deep'))
        # recursion through an extension addition (PER/OER wrap it in an open type: a separate decoder entry point per level)
        if n <= 4096:
            out.append(('knot/RecExt/uper/%d' % n, 'RecExt', 'uper', _rec_ext_uper(n), 'deep'))
            out.append(('knot/RecExt/oer/%d' % n, 'RecExt', 'oer', _rec_ext_oer(n), 'deep'))
        out.append(('knot/RecExt/ber-def/%d' % n, 'RecExt', 'ber', _rec_ext_ber(n), 'deep'))
        out.append(('knot/RecExt/xer/%d' % n, 'RecExt', 'xer', b'<RecExt>' + b'<v>1</v><r>' * n + b'<v>1</v>' + b'</r>' * n + b'</RecExt>', 'deep'))
        # nested constructed strings
        out.append(('constructed/Oct/def/%d' % n, 'Oct', 'ber', ber_nested(0x24, n, b'\x04\x01\x55', False), 'deep'))
        out.append(('constructed/Oct/indef/%d' % n, 'Oct', 'ber', ber_nested(0x24, n, b'\x04\x01\x55', True), 'deep'))
        out.append(('constructed/Bits/indef/%d' % n, 'Bits', 'ber', ber_nested(0x23, n, b'\x03\x02\x00\x55', True), 'deep'))
        # nested indefinite lengths inside an unknown extension that must be skipped
        out.append(('skip/Ext/indef/%d' % n, 'Ext', 'ber', b'\x30\x80\x80\x01\xff' + ber_nested(0xbf, 0, b'', True)[:0] + _skip_nest(n) + b'\0\0', 'deep'))
        # zero-width elements with huge counts
        if n <= 65536:
            out.append(('zero/OfNull/uper/%d' % n, 'OfNull', 'uper', _uper_len(n), 'bounded'))
            out.append(('zero/OfOne/uper/%d' % n, 'OfOne', 'uper', _uper_len(n), 'bounded'))
            out.append(('zero/OfEmptySeq/uper/%d' % n, 'OfEmptySeq', 'uper', _uper_len(n), 'bounded'))
            out.append(('zero/OfNull/ber/%d' % n, 'OfNull', 'ber', b'\x30' + ber.length(2 * n) + b'\x05\x00' * n, 'bounded'))
    # maximal counts / lengths with nothing behind them
    for q in (b'\x01\xff', b'\x02\xff\xff', b'\x04\x7f\xff\xff\xff', b'\x04\xff\xff\xff\xff', b'\x08\x7f\xff\xff\xff\xff\xff\xff\xff'):
        for ty in ('OfNull', 'SetOfNull', 'OfOne', 'OfEmptySeq', 'OfBool'):
            out.append(('count/%s/oer/%s' % (ty, q.hex()), ty, 'oer', q, 'bounded'))
    out.append(('count/OfSized/uper/65535', 'OfSized', 'uper', b'\xff\xff', 'bounded'))
    for ty, tag in (('Oct', 0x04), ('Bits', 0x03), ('Str', 0x16), ('U8', 0x0c), ('Int', 0x02), ('Oid', 0x06)):
        for ln in (b'\x84\x7f\xff\xff\xff', b'\x84\xff\xff\xff\xff', b'\x88\x7f\xff\xff\xff\xff\xff\xff\xff', b'\x83\xff\xff\xff', b'\x82\xff\xff'):
            # ... and with 0, 1, 2, 17 content octets really delivered (a decoder may size its buffer from the claim as soon
            # as the first content octet arrives)
            for k in (0, 1, 2, 17):
                suffix = ('+%d' % k) if k else ''
                out.append(('lenprefix/%s/ber/%s%s' % (ty, ln.hex(), suffix), ty, 'ber', bytes([tag]) + ln + b'\x00' * min(k, 1) + b'\x41' * max(0, k - 1), 'bounded'))
                if ty != 'Bits':
                    out.append(('lenprefix/%s/oer/%s%s' % (ty, ln.hex(), suffix), ty, 'oer', ln + b'\x41' * k, 'bounded'))
        for frag in (b'\xc4', b'\xc4' + b'\x00' * 10, b'\xbf\xff', b'\xc1' + b'\x55' * 100):
            out.append(('lenprefix/%s/uper/%s' % (ty, frag[:3].hex()), ty, 'uper', frag, 'bounded'))
    return mod, out


def _bits(s):
    s = s + '0' * ((8 - len(s) % 8) % 8)
    return int(s, 2).to_bytes(len(s) // 8, 'big') if s else b''


def _uper_len(n):
    w = uper.BitW()
    uper.put_len_items(w, n, lambda s, c: None)
    return w.tobytes()


def _rec_opt_ber(n, indef):
    body = b'\x81\x01\x01'
    for _ in range(n):
        if indef:
            body = b'\xa0\x80' + body + b'\0\0' + b'\x81\x01\x01'
        else:
            body = b'\xa0' + ber.length(len(body)) + body + b'\x81\x01\x01'
    return (b'\x30\x80' + body + b'\0\0') if indef else (b'\x30' + ber.length(len(body)) + body)


def _rec_of_ber(n):
    body = b'\xa0\x00\x81\x01\xff'
    for _ in range(n):
        inner = b'\x30' + ber.length(len(body)) + body
        body = b'\xa0' + ber.length(len(inner)) + inner + b'\x81\x01\xff'
    return b'\x30' + ber.length(len(body)) + body


def _rec_ch_ber(n):
    body = b'\x80\x01\x07'
    for _ in range(n):
        body = b'\xa1' + ber.length(len(body)) + body
    return body


def _rec_ext_uper(n):
    """RecExt ::= SEQUENCE { v INTEGER, ..., r RecExt OPTIONAL } nested n times, built inside-out (no Python recursion)"""
    inner = _bits('0' + '00000001' + '00000001')                      # no extensions; v = 1
    for _ in range(n):
        w = uper.BitW()
        w.put(1, 1)                                                    # extension bit
        w.put(1, 8); w.put(1, 8)                                       # v: length 1, value 1
        w.put(0, 1); w.put(0, 6)                                       # normally small (number of additions - 1) = 0
        w.put(1, 1)                                                    # presence bitmap: r present
        L = len(inner)
        if L < 128:
            w.put(L, 8)
        elif L < 16384:
            w.put(0x8000 | L, 16)
        else:
            break                                                      # fragmented lengths are not needed for this ladder
        for b in inner:
            w.put(b, 8)
        inner = w.tobytes()
    return inner


def _rec_ext_oer(n):
    inner = b'\x00' + b'\x01\x01'                                      # preamble: extension bit 0; v = 1
    for _ in range(n):
        body = b'\x80' + b'\x01\x01' + b'\x02\x07\x80'                # ext bit 1; v; bitmap length 2, 7 unused bits, '1'
        L = len(inner)
        ln = bytes([L]) if L < 128 else bytes([0x80 | ((L.bit_length() + 7) // 8)]) + L.to_bytes((L.bit_length() + 7) // 8, 'big')
        inner = body + ln + inner
    return inner


def _rec_ext_ber(n):
    body = b'\x30\x03\x80\x01\x01'
    for _ in range(n):
        # r [1] IMPLICIT RecExt under AUTOMATIC TAGS: the nested SEQUENCE's own tag is replaced by [1] (constructed)
        content = _tlv_content(body)
        body = b'\x30' + ber.length(3 + 1 + len(ber.length(len(content))) + len(content)) + b'\x80\x01\x01' + b'\xa1' + ber.length(len(content)) + content
    return body


def _tlv_content(tlv):
    l0 = tlv[1]
    if l0 < 0x80:
        return tlv[2:]
    return tlv[2 + (l0 & 0x7f):]


def _rec_opt_xer(n):
    return b'<RecOpt>' + b'<r>' * n + b'<v>1</v>' + b'</r><v>1</v>' * n + b'</RecOpt>'


def _skip_nest(n):
    return b'\xbf\x63\x80' * n + b'\0\0' * n


def run(args):
    chk = common.Check('C15', 'exploration', args.tier)
    mod, atk = attacks(args.tier)
    work = os.path.join(build.BUILD, 'c15-%d' % os.getpid())
    shutil.rmtree(work, ignore_errors=True)
    g = build.gen_types(module_text(mod), list(mod.types), work, flavour='plain')
    exe = build.link(os.path.join(work, 'drv'), build.drv_objects(corpus.DRV, 'plain'), g)
    stats = collections.Counter()
    samples = []
    distinct = set()
    env = dict(os.environ)
    lines = []
    for label, ty, syn, data, expect in atk:
        for ms in (None, 1000, 1000000):
            if ms is not None and not label.startswith(('knot', 'constructed', 'skip')):
                continue
            lines.append(('bomb %s %s %s%s' % (ty, syn, data.hex() or '-', '' if ms is None else ' %d' % ms), label, ty, syn, data, expect, ms))
    res = common.run_driver_parallel(exe, [l[0] for l in lines], watchdog=60, env=env)
    for (cmd, label, ty, syn, data, expect, ms), r in zip(lines, res):
        stats['evaluations'] += 1
        n = len(data)
        cls = '/'.join(label.split('/')[:3])

        def viol(kind, detail):
            chk.violation(dict(kind=kind, attack=cls, syntax=syn, max_stack=ms), dict(cmd=cmd[:300] + ('...' if len(cmd) > 300 else ''), input_len=n, label=label, detail=detail,
                                                                                      module=module_text(mod), type=ty, note='full input: regenerate with checks/c15.py attacks()'))
        if r.crash is not None:
            ck, cf = common.crash_sig(r.crash)
            viol('killed:' + ck, r.crash[-600:])
            continue
        kv, _ = common.parse_kv(r.line)
        distinct.add(label)
        peak, big = int(kv['peak']), int(kv['big'])
        # constant factor: 1024, plus - for PER/OER open types, which copy their content once per nesting level - the number of
        # levels the stack limit in force permits (a level costs the decoder well over 256 bytes of stack)
        bound = (1024 + ((ms if ms else 30000) // 256)) * max(n, 1) + 65536
        if peak > bound or big > bound:
            viol('heap_not_proportional_to_input', 'input %d bytes, peak %d bytes, largest single request %d, bound %d' % (n, peak, big, bound))
        if kv.get('leak') != '0':
            viol('leak', r.line)
        # bounded stack: whatever the decoder answers, the high-water mark of the (painted) stack stays within the limit in force
        # (the caller's max_stack_size, else the library default of 30000) plus 64 KiB of slack for leaf frames and libc
        limit = ms if ms else 30000
        if 'stack' in kv and int(kv['stack']) > limit + 65536:
            viol('stack_not_bounded_by_limit', 'stack high-water mark %s bytes under limit %d (rc=%s, input %d bytes)' % (kv['stack'], limit, kv['rc'], n))
        stats['max_stack_seen'] = max(stats['max_stack_seen'], int(kv.get('stack', 0)))
        stats['rc_%s' % kv['rc']] += 1
        if len(samples) < 4 and stats['evaluations'] % 41 == 1:
            samples.append(dict(attack=label, input_len=n, result=r.line))
    shutil.rmtree(work, ignore_errors=True)
    cov = dict(evaluations=stats['evaluations'], distinct_nontrivial=len(distinct),
               rule='attack catalogue x size ladder (nesting depth / element count %s) on the plain (non-sanitizer) build with the default 8 MiB stack: recursion through '
                    'four knots (OPTIONAL, SEQUENCE OF, CHOICE, extension addition) in BER definite/indefinite, OER, UPER, XER; nested constructed OCTET/BIT STRING; nested indefinite '
                    'lengths inside a skipped extension; length prefixes up to 2^63 with nothing, 1, 2 or 17 content octets behind them for every length-carrying leaf in BER/OER/UPER (incl. fragmented PER '
                    'lengths); zero-width elements with counts up to 2^63 (NULL, single-value INTEGER, empty SEQUENCE; OER quantity fields of 1..8 octets); each knot attack also '
                    'with caller-supplied max_stack_size 1000 and 1000000. Oracle: the process is not killed (no SIGSEGV from stack exhaustion, no abort), no watchdog, the high-water mark of the painted 16 MiB decode stack <= limit in force + 64 KiB, peak live heap '
                    'and largest single allocation request <= 1024 x input bytes + 64 KiB, nothing leaked. The claim is for this finite catalogue.' % (
                        '16..4096' if args.tier == 'quick' else '16..131072'),
               samples=samples, stats=dict(stats), trusted_base=['allocation ledger peak accounting', 'OS signal status'])
    return chk.finish(cov)
