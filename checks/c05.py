"""C05: chunked (restartable) decoding == one-shot decoding, for BER, OER and XER.
The driver's `chunk` command explores, per encoding, the complete state graph of the feeding protocol with the
canonical heap image as state (mode full), or every schedule with <=2 interior boundaries plus byte-at-a-time
feeding (mode k2) for long encodings."""
import collections
from tools import common, corpus
from checks import base
from gen import features
from ref import asn1ast as A, ber, oer


def encodings_for(b, c, tier):
    t = b.mod.types[c.name]
    vals = corpus.case_values(b, c)
    if not vals:
        return []
    n = len(vals)
    idxs = [n // 2] if tier == 'quick' else sorted(set([0, n // 2, n - 1, n // 3]))
    if c.family == 'S4':
        # optional-run shapes: the resumption point depends on which members are present, and the encodings are tiny
        seen_presence, idxs = set(), []
        for i, (v, d) in enumerate(vals):
            key = tuple(sorted(v)) if isinstance(v, dict) else None
            if key not in seen_presence:
                seen_presence.add(key)
                idxs.append(i)
    out = []
    for i in idxs:
        v, d = vals[i]
        fe = features.features(b.mod, t, v)
        out.append(('ber', d, v, fe, 'der'))
        try:
            vs = ber.variants(lambda ch: ber.encode_policy(b.mod, t, v, ch), 1 if tier == 'quick' else 2, cap=200)
            picked = 0
            # the encoder-policy variants (whole chain / whole encoding indefinite) first: they reach the multi-terminator
            # accounting of ber_check_tags, which single-TLV choices cannot
            vs = sorted(vs, key=lambda ec: 0 if any(l in ('chain_indef', 'all_indef') for _, l, cc in ec[1].deviations()) else 1)
            for enc, ch in vs:
                labs = [l for _, l, cc in ch.deviations()]
                if not labs or 'mixed_chain' in ch.features or 'constructed_string_retagged' in ch.features:
                    continue
                indef = any((l.startswith('len:') and cc == 2) or l in ('chain_indef', 'all_indef') for _, l, cc in ch.deviations())
                interesting = indef or 'constructed_string' in ch.features or 'unknown_ext' in ch.features or 'set_reordered' in ch.features
                if interesting and (tier != 'quick' or picked < 4):
                    out.append(('ber', enc, v, fe | ch.features, '+'.join(labs)))
                    picked += 1
        except Exception:
            pass
        if 'has_SET' not in fe and 'k:ObjectDescriptor' not in fe:
            try:
                out.append(('oer', oer.encode(b.mod, t, v), v, fe, 'canonical'))
            except Exception:
                pass
        out.append(('XER', d, v, fe, 'asn1c'))
    return out


def make_worker(tier):
    full_max = 96 if tier == 'quick' else 160
    k2_max = 300 if tier == 'quick' else 640

    def worker(b):
        o = base.Out()
        items = []
        xsrc = []
        for c in b.cases:
            if c.family == 'S6' and c.label.startswith('long/'):
                continue
            for syn, enc, v, fe, lab in encodings_for(b, c, tier):
                if syn == 'XER':
                    if 'k:REAL' not in fe:
                        xsrc.append((c, enc, v, fe))
                else:
                    items.append((c, syn, enc, v, fe, lab))
        lines = []
        for c, d, v, fe in xsrc:
            lines.append('enc %s cxer %s' % (c.name, d.hex()))
            lines.append('enc %s xer %s' % (c.name, d.hex()))
        res = common.run_driver(b.exe, lines, watchdog=20)
        for i, (c, d, v, fe) in enumerate(xsrc):
            for j, syn in ((0, 'cxer'), (1, 'xer')):
                r = res[2 * i + j]
                if r.crash is None and ' out=' in (r.line or '') and ' out=E' not in r.line:
                    hx = r.line.split(' out=')[1].strip()
                    x = b'' if hx == '-' else bytes.fromhex(hx)
                    if syn == 'xer' and x.endswith(b'\n'):
                        x = x[:-1]     # asn1c's trailing LF is C01's finding, not part of the document
                    items.append((c, syn, x, v, fe, 'asn1c-' + syn))
        lines, meta = [], []
        for c, syn, enc, v, fe, lab in items:
            n = len(enc)
            if n == 0 or n > k2_max:
                o.stats['skipped_too_long'] += 1
                continue
            mode = 'full' if n <= full_max else 'k2'
            lines.append('chunk %s %s %s %s' % (c.name, syn, enc.hex(), mode))
            meta.append((c, syn, enc, v, fe, lab, mode))
        res = common.run_driver(b.exe, lines, watchdog=120)
        for (c, syn, enc, v, fe, lab, mode), r, line in zip(meta, res, lines):
            fl = sorted(fe)

            def viol(kind, detail):
                o.v(b, c, kind, syn, detail, value=v, cmd=line[:5000], observed=(r.line or r.crash or ''), feats=fl, extra=dict(encoding=enc.hex()[:4000], variant=lab, mode=mode))
            if r.crash is not None:
                viol('crash', r.crash[-1500:])
                continue
            if 'oneshot=' in r.line:
                o.stats['oneshot_not_ok'] += 1     # C01/C03 matter, not a chunking question
                continue
            kv, _ = common.parse_kv(r.line)
            o.stats['encodings'] += 1
            if mode == 'full':
                o.stats['states'] += int(kv.get('states', 0))
            else:
                o.stats['k2_schedules'] += int(kv.get('states', 0))
            o.stats['transitions'] += int(kv.get('transitions', 0))
            o.stats['calls'] += int(kv.get('calls', 0))
            o.stats['mode:' + mode] += 1
            o.stats['max_history'] = max(o.stats['max_history'], int(kv.get('maxhist', 0)))
            if int(kv.get('capped', 0)):
                o.stats['state_cap_hit'] += 1
            if int(kv.get('states', 0)) >= 3:
                o.distinct.add((c.label, syn, enc))
            if int(kv.get('viol', 0)):
                vs = [tok[2:] for tok in r.line.split() if tok.startswith('v=')]
                kinds = sorted(set(x.split(':')[0] for x in vs))
                for k in kinds:
                    viol(k, ' '.join(x for x in vs if x.startswith(k))[:600])
            if len(o.samples) < 1 and mode == 'full' and int(kv.get('states', 0)) > 5:
                o.samples.append(dict(type=A.type_text(b.mod, b.mod.types[c.name], 0)[:200], syntax=syn, variant=lab, encoding=enc.hex()[:160], result=r.line[:200]))
        return o
    return worker


def run(args):
    chk = common.Check('C05', 'model_checking', args.tier)
    fams = base.families_for(args.tier, args.families, quick=('S0', 'S1', 'S2', 'S4', 'S5'), thorough=('S0', 'S1', 'S2', 'S3', 'S4', 'S5'))
    stats, distinct, samples = base.run_sweep(chk, args, make_worker(args.tier), fams=fams, shape_tier='quick')
    cov = dict(states=stats['states'], transitions=stats['transitions'], traces_validated_against_impl=stats['transitions'],
               evaluations=stats['encodings'], distinct_nontrivial=len(distinct), decoder_calls=stats['calls'],
               rule='per encoding (reference DER, BER variants with indefinite lengths / constructed strings / unknown extensions / permuted SETs, reference OER, '
                    'asn1c BASIC- and CANONICAL-XER) of boundary values of every type of families %s: the complete graph of (consumed, available, canonical heap image) '
                    'states under "make more bytes available and call the decoder again" (mode full, encodings <= %d bytes; state cap 100000), else every schedule with '
                    '<=2 interior chunk boundaries plus one-byte feeding (mode k2). Every transition is an implementation step, so traces_validated == transitions. '
                    'Oracle: proper prefix => RC_WMORE with consumed<=given; end => RC_OK, all consumed, DER equal to the one-shot decode; no leak. '
                    'non-trivial = encodings with >= 3 reachable states' % (','.join(fams), 96 if args.tier == 'quick' else 160),
               samples=samples, stats=dict(stats), max_history_length=stats['max_history'],
               trusted_base=['canonical heap image (drv/canon.c) for state matching: equal images + equal offsets => equal futures (decoders keep all resumption state in the structure; C19 checks there is no hidden static state)', 'ASan/UBSan', 'allocation ledger'])
    return chk.finish(cov, exhaustive=(stats['state_cap_hit'] == 0))
