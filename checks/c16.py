"""C16: INTEGER / REAL conversion helpers are exact and produce canonical contents.

The enumeration and the independent reference live in drv/prim.c (groups int, strto, real); this module
builds it against the sanitizer flavour of the skeleton library, runs the groups as parallel processes and
turns the harness' records into violations / evidence.  prim_check() is shared with C17.
"""
import os, shutil, subprocess, time
from concurrent.futures import ThreadPoolExecutor
from tools import build, common

TIMEOUT_S = 3000


def build_prim(workdir):
    """compile drv/prim.c with the flags of the 'asan' skeleton library into workdir/prim"""
    lib, cfl, ldf = build.skel_lib('asan')
    os.makedirs(workdir, exist_ok=True)
    exe = os.path.join(workdir, 'prim')
    cmd = [build.CC] + cfl + ['-Wall', '-I' + os.path.join(build.REPO, 'skeletons'),
                              os.path.join(build.VERIF, 'drv', 'prim.c'), lib] + ldf + ['-lm', '-o', exe]
    r = build.run(cmd)
    if r.returncode:
        raise build.BuildError('prim.c: ' + r.stderr.decode(errors='replace')[:4000])
    return exe


def _run_one(exe, tier, group, i, n):
    t0 = time.time()
    cmd = [exe, tier, group, '%d/%d' % (i, n)]
    try:
        p = subprocess.run(cmd, stdout=subprocess.PIPE, stderr=subprocess.PIPE, env=common.ASAN_ENV, timeout=TIMEOUT_S)
        out, err, rc = p.stdout, p.stderr, p.returncode
    except subprocess.TimeoutExpired as e:
        out, err, rc = e.stdout or b'', (e.stderr or b'') + b'\nHARNESS TIMEOUT', -999
    return dict(group=group, shard=(i, n), rc=rc, out=out.decode(errors='replace'), err=err.decode(errors='replace'),
                wall=round(time.time() - t0, 2), cmd='prim %s %s %d/%d' % (tier, group, i, n))


def parse(runs):
    """aggregate the records of all processes"""
    res = dict(subs={}, cases={}, vlines=[], notes=[], samples=[], errors=[], crashes=[], walls={})
    for r in runs:
        res['walls']['%s %d/%d' % (r['group'], r['shard'][0], r['shard'][1])] = r['wall']
        done = False
        for line in r['out'].split('\n'):
            if not line:
                continue
            tok = line.split(' ')
            if tok[0] == 'V' and ' :: ' in line:
                head, _, detail = line.partition(' :: ')
                h = head.split(' ', 3)
                if len(h) == 4:
                    res['vlines'].append(dict(name=h[1], case=h[2], input=h[3], detail=detail, group=r['group'], cmd=r['cmd']))
                    continue
                res['errors'].append('unparsable record: ' + line[:200])
            elif tok[0] == 'C' and len(tok) == 4:
                k = (tok[1], tok[2])
                res['cases'][k] = res['cases'].get(k, 0) + int(tok[3])
            elif tok[0] == 'N':
                if line[2:] not in res['notes']:
                    res['notes'].append(line[2:])
            elif tok[0] == 'X':
                res['samples'].append(line[2:])
            elif tok[0] == 'E':
                res['errors'].append(line[2:])
            elif tok[0] == 'DONE':
                done = True
            elif len(tok) == 4 and tok[1].startswith('evaluations='):
                s = res['subs'].setdefault(tok[0], dict(evaluations=0, distinct=0, violations=0))
                for t in tok[1:]:
                    k, _, v = t.partition('=')
                    s[k] += int(v)
            else:
                res['errors'].append('unparsable record: ' + line[:200])
        if r['rc'] != 0 or not done:
            res['crashes'].append(r)
    return res


def prim_check(prop, args, plan, rule, trusted):
    """plan: [(group, shards)]"""
    chk = common.Check(prop, 'exploration', args.tier)
    tier = 'thorough' if args.tier == 'thorough' else 'quick'
    wd = os.path.join(build.BUILD, 'prim-%d' % os.getpid())
    try:
        exe = build_prim(wd)
        jobs = [(g, i, n) for g, n in plan for i in range(n)]
        with ThreadPoolExecutor(max(1, min(len(jobs), build.JOBS))) as ex:
            runs = list(ex.map(lambda j: _run_one(exe, tier, *j), jobs))
    finally:
        if not getattr(args, 'keep', False):
            shutil.rmtree(wd, ignore_errors=True)
    res = parse(runs)
    if res['errors']:
        raise RuntimeError('prim harness self-check failed: ' + '; '.join(res['errors'][:5]))

    for r in res['crashes']:
        kind, func = common.crash_sig(r['err']) if r['rc'] != 0 else ('incomplete_output', '?')
        last = [l for l in r['out'].split('\n') if l][-3:]
        chk.violation(dict(kind='crash', case='%s:%s:%s' % (r['group'], kind, func)),
                      dict(group=r['group'], cmd=r['cmd'], status=r['rc'], stderr_tail=r['err'][-4000:], last_records=last,
                           reproduce='build drv/prim.c against the asan skeleton library (checks/c16.py:build_prim) and run: ' + r['cmd']))
    # Disagreements that rest on a convention or on an ambiguous clause are recorded, never asserted:
    #  * X.690 8.5.7.4 d) (exponent-length form 11) says "X octets" and "third up to the (X plus 3)th" in one sentence;
    #  * the two-digit-year window of UTCTime is a convention (asn1c pivots at 60, RFC 5280 at 50).
    record_only = ('real_decode_form11',)
    record_only_cases = ('asn_UT2time:years-1950-1959-read-as-2050-2059',)
    recorded = {}
    for v in res['vlines']:
        if v['name'] in record_only or v['case'] in record_only_cases:
            recorded[v['name'] + ' ' + v['case']] = res['cases'].get((v['name'], v['case']))
            continue
        chk.violation(dict(kind=v['name'], case=v['case']),
                      dict(input=v['input'], detail=v['detail'], group=v['group'], tier=tier,
                           total_violations_of_this_case=res['cases'].get((v['name'], v['case'])),
                           reproduce='build drv/prim.c against the asan skeleton library (checks/c16.py:build_prim) and run: ' + v['cmd']))

    # a few samples per sub-check, real evaluated inputs
    samples, per = [], {}
    for s in res['samples']:
        name = s.split(' ', 1)[0]
        if per.get(name, 0) < 2:
            per[name] = per.get(name, 0) + 1
            samples.append(s)
    stats = dict(subchecks=res['subs'],
                 violation_cases={'%s %s' % k: v for k, v in sorted(res['cases'].items())},
                 recorded_not_asserted=res['notes'], recorded_disagreements_on_ambiguous_clauses=recorded, process_wall_s=res['walls'], crashes=len(res['crashes']))
    cov = dict(evaluations=sum(s['evaluations'] for s in res['subs'].values()),
               distinct_nontrivial=sum(s['distinct'] for s in res['subs'].values()),
               rule=rule, samples=samples, stats=stats, trusted_base=trusted)
    return chk.finish(cov)


RULE = ('drv/prim.c, enumerated (never sampled). int_values: for long, unsigned long, intmax_t, uintmax_t every value +-2^k+d (k 0..64, d -2..2) in range '
        'and every value in [-65536,65536]: asn_*2INTEGER stores the minimal two\'s-complement octets (reference: repeated division on __int128) and '
        'asn_INTEGER2* returns the value. int_octets: every octet string of length 0..%(full)d over all 256 octets and of length %(f1)d..%(lim)d over '
        '{00,01,7F,80,FF} through all four asn_INTEGER2*: value of the __int128 interpretation when it fits the target type, -1/ERANGE exactly when it '
        'does not (the empty string is recorded only). strto_short: every string of length 0..4 over "0123456789+- " through asn_strtol_lim, '
        'asn_strtoul_lim, asn_strtoimax_lim, asn_strtoumax_lim; strto_boundary: for L in {INTMAX_MIN, INTMAX_MAX, UINTMAX_MAX (= the long limits)}: '
        'L-1, L, L+1, 10L x prefix {"", +, -} x 0..30 leading zeros x trailing {"", blank, x, ., -, +, 0, 9} x every shortened end pointer; result code, '
        'value and *end (for OK / EXTRA_DATA) must equal an __int128 parser of the documented contract; the input lives in an exact-size heap block. '
        'real_roundtrip: sign x 2048 exponent fields x %(pats)s mantissa patterns: asn_double2REAL octets equal the X.690 8.5/11.3 DER octets derived from '
        'the IEEE-754 fields by integer arithmetic, asn_REAL2double of the library\'s and of the reference octets gives the same bits (NaN -> NaN). '
        'real_decode: +-{1, 3, 2^-1074, DBL_MAX} in base 2/8/16 x F 0..3 x 0..2 redundant exponent octets x 0..2 redundant mantissa octets, short '
        'exponent forms; real_decode_form11: the same with the explicit exponent-length form (bits 2-1 = 11; redundant exponent octets recorded only); '
        'real_decimal: 21 ISO 6093 NR1/NR2/NR3 texts with exactly known values (malformed texts recorded only). '
        'non-trivial = distinct inputs (value x type, octet string, numeral, bit pattern, encoding)')


def run(args):
    th = args.tier == 'thorough'
    rule = RULE % dict(full=3 if th else 2, f1=4 if th else 3, lim=10 if th else 6, pats='173' if th else '41')
    plan = [('int', 6 if th else 1), ('strto', 1), ('real', 1)]
    return prim_check('C16', args, plan, rule,
                      ['drv/prim.c reference (__int128 arithmetic, IEEE-754 field decomposition)', 'ASan/UBSan', 'libc strtod is NOT used by the reference'])
