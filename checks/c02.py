"""C02: DER / UPER / OER bytes equal the independent reference encoder's bytes."""
from tools import common
from checks import rtsweep


def run(args):
    chk = common.Check('C02', 'exploration', args.tier)
    stats, distinct, samples = rtsweep.sweep(chk, args, False, True)
    n = stats['c02_compared:der'] + stats['c02_compared:uper'] + stats['c02_compared:oer']
    cov = dict(evaluations=n, distinct_nontrivial=len(distinct),
               rule='every (type,value) of shape families %s: bytes of asn1c DER/UPER/OER encoders compared with ref/ber.py, ref/uper.py, ref/oer.py '
                    '(written from X.690/X.691/X.696); non-trivial = DER >= 3 octets and >= 4 pairwise different encodings' % ','.join(rtsweep.families_for(args.tier, args.families)),
               samples=samples, types=stats['types'], values=stats['values'], stats={k: v for k, v in stats.items()},
               trusted_base=['ref/*.py reference encoders', 'gcc', 'ASan/UBSan'])
    return chk.finish(cov)
