"""C10: every accepted specification yields C that builds; the compiler never dies.
The whole shape corpus is compiled under the documented option sets; asn1c must exit (never a signal), status 0
implies the emitted C compiles as C99 with strict pointer/implicit-declaration errors, links against the skeletons
with every asn_DEF_* referenced, the headers are valid C++, and the descriptors pass a consistency lint."""
import os, shutil, itertools
from tools import build, common, corpus
from checks import base
from gen import typegen
from ref import asn1ast as A

OPTS = {'compound': '-fcompound-names', 'wide': '-fwide-types', 'indirect': '-findirect-choice', 'noconstr': '-fno-constraints',
        'noper': '-no-gen-PER', 'nooer': '-no-gen-OER', 'quoted': '-fincludes-quoted'}
DEFS = {'noper': 'ASN_DISABLE_PER_SUPPORT', 'nooer': 'ASN_DISABLE_OER_SUPPORT'}
STRICT = ('-std=gnu99', '-Wall', '-Wno-unused', '-Wno-parentheses', '-Werror=implicit-function-declaration', '-Werror=incompatible-pointer-types', '-Werror=int-conversion')


def option_sets(tier):
    names = list(OPTS)
    sets = [()] + [(n,) for n in names]
    if tier == 'quick':
        sets += [('compound', 'wide', 'indirect'), ('noper', 'nooer')]
    else:
        sets += list(itertools.combinations(names, 2)) + [('wide', 'compound', 'indirect'), tuple(names)]
    return sets


def classify(err):
    if 'asn1c failed' in err:
        rc = int(err.split('asn1c failed (')[1].split(')')[0])
        return ('asn1c_killed_by_signal' if rc < 0 else 'asn1c_rejected'), rc
    if 'c++ header check failed' in err:
        return 'cxx_header', None
    if 'link failed' in err:
        return 'link_failed', None
    return 'generated_c_does_not_compile', None


def run(args):
    chk = common.Check('C10', 'exploration', args.tier)
    fams = base.families_for(args.tier, args.families, quick=('S0', 'S1', 'S2', 'S4', 'S5', 'S6'), thorough=('S0', 'S1', 'S2', 'S3', 'S4', 'S5', 'S6'))
    sets = option_sets(args.tier)
    programs = 0
    stats = {}
    samples = []
    distinct = set()
    for oset in sets:
        # thorough: the full thorough shape corpus under no option and under the three options that change the emitted C most
        # (taken together); the quick shape corpus under every single option, every pair and all options together
        deep = args.tier != 'quick' and oset in ((), ('wide', 'compound', 'indirect'))
        cases = typegen.cases('thorough' if deep else 'quick', fams)
        if args.tier == 'quick' and oset:
            cases = [c for c in cases if c.family != 'S1' or hash(c.label) % 3 == 0 or True]
        work = os.path.join(build.BUILD, 'c10-%d-%s' % (os.getpid(), '_'.join(oset) or 'none'))
        opts = tuple(OPTS[n] for n in oset)
        defs = tuple(DEFS[n] for n in oset if n in DEFS)
        batches, failures = corpus.build_corpus(cases, work, flavour='plain', opts=opts, defines=defs, per_module=40, extra_cflags=STRICT, cxx_headers=True)
        st = dict(types=len(cases), built=sum(len(b.cases) for b in batches), rejected=0, failed=0)
        for c, err, text in failures:
            kind, rc = classify(err)
            if kind == 'asn1c_rejected':
                st['rejected'] += 1
                # a rejection is legitimate for C10 if it comes with a diagnostic; the verdict on acceptance is C11's
                if 'asn1c failed' in err and len(err.split('): ', 1)[-1].strip()) == 0:
                    chk.violation(dict(kind='rejected_without_diagnostic', options='+'.join(oset) or 'none', family=c.family, label=c.label), dict(module=text, error=err, asn1c_opts=list(opts)))
                continue
            st['failed'] += 1
            first = next((l for l in err.split('\n') if 'error' in l), err[:200])
            import re
            cls = re.sub(r'[0-9]+', 'N', first.split('error:')[-1].strip())[:80]
            chk.violation(dict(kind=kind, options='+'.join(oset) or 'none', family=c.family, label=c.label, error_class=cls),
                          dict(module=text, error=err, asn1c_opts=list(opts), asn1c_mode='-R'))

        def lint(b):
            res = common.run_driver(b.exe, ['lint %s' % c.name for c in b.cases], env=dict(os.environ))
            out = []
            for c, r in zip(b.cases, res):
                if r.crash is not None or 'bad=0' not in (r.line or ''):
                    out.append((c, (r.line or r.crash or '')[:400], b.text))
            return out
        for lst in corpus.map_batches(lint, batches):
            for c, detail, text in lst:
                chk.violation(dict(kind='descriptor_lint', options='+'.join(oset) or 'none', family=c.family, label=c.label, detail=detail.split('why=')[-1][:60]),
                              dict(module=text, type=c.name, cmd='lint %s' % c.name, detail=detail, asn1c_opts=list(opts)))
        programs += len(cases)
        stats['+'.join(oset) or 'none'] = st
        distinct |= {(oset, c.label) for c in cases if c.family != 'S0'}
        if batches and len(samples) < 3:
            samples.append(dict(options=list(oset), module=batches[0].text[:400]))
        shutil.rmtree(work, ignore_errors=True)
    # ---- the emitted file set itself (asn1c_save.c, skeletons/file-dependencies): full emission without -R, built with the
    # emitted converter-example.mk from the files asn1c copied (no -I into /repo), then the converter is run on a reference DER
    import subprocess
    from gen import values as _V
    from ref import ber as _ber
    full_sets = [(), ('noper',), ('nooer',), ('wide',), ('compound', 'indirect')] if args.tier == 'quick' else [()] + [(n,) for n in OPTS] + [('noper', 'nooer')]
    fcases = typegen.cases('quick', ['S0', 'S2', 'S5'])
    fmods = typegen.pack(fcases, 40)
    if args.tier == 'quick':
        fmods = fmods[::4]
        full_sets = [(), ('noper', 'nooer'), ('wide', 'compound', 'indirect')]
    exe = build.asn1c()

    def full_one(job):
        (mod, cs), oset = job
        d = os.path.join(build.BUILD, 'c10full-%d' % os.getpid(), '%s-%s' % (mod.name, '_'.join(oset) or 'none'))
        shutil.rmtree(d, ignore_errors=True)
        os.makedirs(d)
        text = A.module_text(mod)
        with open(os.path.join(d, 'm.asn1'), 'w') as f:
            f.write(text)
        opts = [OPTS[n] for n in oset]
        r = subprocess.run([exe, '-S', os.path.join(build.REPO, 'skeletons')] + opts + ['m.asn1'], cwd=d, stdout=subprocess.PIPE, stderr=subprocess.PIPE, timeout=300)
        res = None
        if r.returncode < 0:
            res = ('asn1c_killed_by_signal', 'signal %d' % -r.returncode)
        elif r.returncode == 0:
            # CFLAGS through the environment: the emitted makefile appends its own -I. with +=
            m = subprocess.run(['make', '-f', 'converter-example.mk', '-j4'], cwd=d, timeout=900, stdout=subprocess.PIPE, stderr=subprocess.STDOUT,
                               env=dict(os.environ, CFLAGS='-O0 -w ' + ' '.join(x for x in STRICT if x.startswith('-Werror'))))
            if m.returncode != 0:
                out = m.stdout.decode(errors='replace')
                first = next((l for l in out.split('\n') if ' error' in l.lower() or 'undefined reference' in l or 'No rule to make' in l), out[-300:])
                res = ('emitted_file_set_does_not_build', first[:300])
            else:
                c = cs[0]
                t = mod.types[c.name]
                v = _V.typical(mod, t)
                dder = _ber.der(mod, t, v)
                with open(os.path.join(d, 'in.der'), 'wb') as f:
                    f.write(dder)
                cv = subprocess.run(['./converter-example', '-p', c.name, '-iber', '-oder', 'in.der'], cwd=d, stdout=subprocess.PIPE, stderr=subprocess.PIPE, timeout=60)
                if cv.returncode != 0 or cv.stdout != dder:
                    res = ('emitted_converter_misbehaves', 'exit %d, output %s expected %s: %s' % (cv.returncode, cv.stdout.hex()[:80], dder.hex()[:80], cv.stderr.decode(errors='replace')[-200:]))
        shutil.rmtree(d, ignore_errors=True)
        return res, text, oset
    from concurrent.futures import ThreadPoolExecutor
    fjobs = [(mc, oset) for mc in fmods for oset in full_sets]
    with ThreadPoolExecutor(build.JOBS) as ex:
        for (res, text, oset) in ex.map(full_one, fjobs):
            programs += 1
            stats.setdefault('full_emission', dict(runs=0, failed=0))['runs'] += 1
            if res:
                stats['full_emission']['failed'] += 1
                import re as _re
                chk.violation(dict(kind=res[0], options='+'.join(oset) or 'none', error_class=_re.sub(r'[0-9]+', 'N', res[1])[:80]), dict(module=text, detail=res[1], asn1c_opts=[OPTS[n] for n in oset], asn1c_mode='(full emission, no -R)'))
    shutil.rmtree(os.path.join(build.BUILD, 'c10full-%d' % os.getpid()), ignore_errors=True)
    # ---- modules with injected semantic errors (gen/faults.py): asn1c must exit by status; whatever it accepts must compile
    from gen import faults

    def fault_one(item):
        i, (label, text, expect_ok) = item
        d = os.path.join(build.BUILD, 'c10fault-%d' % os.getpid(), 'f%d' % i)
        shutil.rmtree(d, ignore_errors=True)
        try:
            build.gen_types(text, ['T'], d, flavour='plain', extra_cflags=STRICT)
            res = ('accepted', None)
        except build.BuildError as e:
            if getattr(e, 'stage', '') == 'asn1c':
                res = ('asn1c_killed_by_signal', str(e)[:300]) if e.returncode < 0 else (('rejected', None) if str(e).split('): ', 1)[-1].strip() else ('rejected_without_diagnostic', str(e)[:200]))
            else:
                first = next((l for l in str(e).split('\n') if 'error' in l), str(e)[:200])
                res = ('accepted_module_does_not_compile', first[:300])
        shutil.rmtree(d, ignore_errors=True)
        return label, text, res
    fl = faults.fault_modules(args.tier)
    fst = dict(modules=len(fl), accepted=0, rejected=0, failed=0)
    with ThreadPoolExecutor(build.JOBS) as ex:
        for label, text, (kind, detail) in ex.map(fault_one, list(enumerate(fl))):
            programs += 1
            if kind == 'accepted':
                fst['accepted'] += 1
            elif kind == 'rejected':
                fst['rejected'] += 1
            else:
                fst['failed'] += 1
                chk.violation(dict(kind=kind, options='none', label='fault:' + label.split('/')[0]), dict(module=text, detail=detail, asn1c_mode='-R', fault=label))
    stats['fault_injection'] = fst
    shutil.rmtree(os.path.join(build.BUILD, 'c10fault-%d' % os.getpid()), ignore_errors=True)
    cov = dict(evaluations=programs, distinct_nontrivial=len(distinct), programs=programs,
               rule='every type of families %s compiled under %d option sets (none, each single option of {%s}, %s): asn1c must exit normally; status 0 => the emitted '
                    'C compiles with %s, links with the skeleton library and a table referencing every asn_DEF_*, all emitted headers pass g++ -fsyntax-only, and the '
                    'descriptor lint (member offsets inside struct_size, tag2el sorted and in range, oms in range, first_extension consistent, mandatory op entries) passes; '
                    'additionally a selection of 40-type modules is emitted in full (no -R) under several option sets and built ONLY from the files asn1c copied, with the emitted '
                    'converter-example.mk, and the resulting converter must reproduce a reference DER value (covers asn1c_save.c and skeletons/file-dependencies); '
                    'the single-fault modules of gen/faults.py (duplicate identifiers / enumeration items at every pair of positions of every layout, dangling references) are compiled too: exit by status, and any that asn1c accepts must compile; non-zero exit => a diagnostic on stderr. Failing 40-type modules are bisected to the single offending type. non-trivial = (option set, composite type)' % (
                        ','.join(fams), len(sets), ','.join(OPTS.values()), 'two combined sets' if args.tier == 'quick' else 'all pairs and all together', ' '.join(STRICT)),
               samples=samples, option_sets=stats, trusted_base=['gcc/g++ diagnostics', 'drv/xform.c lint'])
    return chk.finish(cov)
