"""C19: codecs are reentrant - concurrent use equals sequential use, without data races.
Stateless, preemption-bounded exploration (iterative context bounding) of two real pthreads running real codec
calls under a serialising scheduler whose scheduling points are every library function entry/exit
(-finstrument-functions), every allocator call and the output callback; plus a free-running ThreadSanitizer pass
of the same scripts."""
import os, shutil, subprocess, itertools, collections, math
from collections import OrderedDict
from concurrent.futures import ThreadPoolExecutor
from tools import build, common
from ref.asn1ast import *
from ref import ber


def the_module():
    T = OrderedDict()
    T['Big'] = Type('SEQUENCE', root=[
        Member('i', Type('INTEGER')), Member('ci', Type('INTEGER', cons=Cons(0, 255))), Member('b', Type('BOOLEAN')),
        Member('e', Type('ENUMERATED', root=[('red', 0), ('green', 1), ('blue', 5)])), Member('r', Type('REAL')),
        Member('o', Type('OBJECT IDENTIFIER')), Member('ro', Type('RELATIVE-OID')), Member('bs', Type('BIT STRING')),
        Member('os', Type('OCTET STRING')), Member('ia', Type('IA5String', size=Cons(1, 8))), Member('ut', Type('UTF8String')),
        Member('ns', Type('NumericString')), Member('bm', Type('BMPString')), Member('un', Type('UniversalString')),
        Member('tu', Type('UTCTime')), Member('tg', Type('GeneralizedTime')), Member('n', Type('NULL')),
        Member('ch', Type('CHOICE', root=[Member('x', Type('INTEGER')), Member('y', Type('BOOLEAN'))])),
        Member('so', Type('SEQUENCE OF', elem=Type('INTEGER'))), Member('st', Type('SET OF', elem=Type('INTEGER', cons=Cons(0, 255)))),
        Member('d', Type('INTEGER', cons=Cons(0, 7)), default=3, has_default=True)],
        ext=True, adds=[Member('ext', Type('IA5String'), optional=True)])
    T['Other'] = Type('SET', root=[Member('a', Type('INTEGER')), Member('s', Type('IA5String')), Member('q', Type('SEQUENCE OF', elem=Type('BOOLEAN')))])
    T['Wide'] = Type('SEQUENCE', root=[Member('u', Type('INTEGER', cons=Cons(0, (1 << 64) - 1))), Member('s', Type('INTEGER', cons=Cons(-(1 << 63), (1 << 63) - 1))),
                                     Member('p', Type('PrintableString')), Member('v', Type('VisibleString', size=Cons(0, 20)))])
    mod = Module('C19', 'AUTOMATIC', T)
    vals = {
        'Big': [dict(i=5, ci=200, b=True, e=1, r=1.5e300, o=(1, 2, 840, 113549), ro=(7, 8), bs=(b'\xa5\x80', 9), os=b'\x01\x02\x03', ia='hello', ut='hé', ns='12 34',
                     bm='AZ', un='az', tu='700101000000Z', tg='20000229120000Z', n=None, ch=('x', -7), so=[1, 2, 300], st=[9, 3, 200], d=3, ext='more'),
                dict(i=-70000, ci=0, b=False, e=5, r=-2.5e100, o=(2, 100, 3), ro=(1,), bs=(b'\xff', 8), os=b'\xfe' * 20, ia='x', ut='zz', ns='9',
                     bm='Q', un='U', tu='991231235959Z', tg='19851106210627.3Z', n=None, ch=('y', True), so=[], st=[255], d=6)],
        'Other': [dict(a=42, s='abc', q=[True, False]), dict(a=-1, s='', q=[])],
        'Wide': [dict(u=(1 << 64) - 1, s=-(1 << 63), p='Printable 123', v='visible'), dict(u=1, s=7, p='', v='')],
    }
    return mod, vals


SCRIPT_ALL = 'DdOoUuXxCvpc'
SCRIPT_NOPER = 'DdXxCvpc'        # for the SET type (no PER/OER codec: known finding)


def build_sched(work, mod, flavour, free_run):
    text = module_text(mod)
    g = build.gen_types(text, list(mod.types), os.path.join(work, flavour), flavour=flavour)
    cfl = ['-O1', '-g'] + (['-fsanitize=thread'] if flavour == 'tsan' else [])
    obj = os.path.join(work, flavour, 'sched.o')
    r = build.run([build.CC] + cfl + (['-DFREE_RUN'] if free_run else []) + ['-Wall', '-Wno-unused-function', '-I' + os.path.join(build.REPO, 'skeletons'),
                                                                              '-I' + os.path.join(build.VERIF, 'drv'), '-c', os.path.join(build.VERIF, 'drv', 'sched.c'), '-o', obj])
    if r.returncode:
        raise build.BuildError('sched.c: ' + r.stderr.decode()[:2000])
    exe = os.path.join(work, flavour, 'sched')
    cmd = [build.CC] + g['ldflags'] + [obj, g['lib'], g['skel']] + ([] if free_run else build.WRAP) + ['-lm', '-lpthread', '-o', exe]
    r = build.run(cmd)
    if r.returncode:
        raise build.BuildError('sched link: ' + r.stderr.decode()[:2000])
    return exe


def run(args):
    chk = common.Check('C19', 'model_checking', args.tier)
    work = os.path.join(build.BUILD, 'c19-%d' % os.getpid())
    shutil.rmtree(work, ignore_errors=True)
    os.makedirs(work)
    mod, vals = the_module()
    der = {t: [ber.der(mod, mod.types[t], v).hex() for v in vs] for t, vs in vals.items()}
    exe = build_sched(work, mod, 'instr', False)
    exe_tsan = build_sched(work, mod, 'tsan', True)
    jobs = []   # (P, (type, der, script), (type, der, script), maxschedules)
    script_of = lambda t: SCRIPT_NOPER if t == 'Other' else SCRIPT_ALL
    P_long = 1
    # long scripts: same type with different values, different types; both orders
    combos = [(('Big', 0), ('Big', 1)), (('Big', 0), ('Wide', 0)), (('Big', 1), ('Other', 0)), (('Wide', 0), ('Wide', 1)), (('Other', 0), ('Other', 1)), (('Wide', 1), ('Other', 1))]
    for (ta, ia), (tb, ib) in combos:
        for a, b in (((ta, ia), (tb, ib)), ((tb, ib), (ta, ia))):
            jobs.append((P_long, (a[0], der[a[0]][a[1]], script_of(a[0])), (b[0], der[b[0]][b[1]], script_of(b[0])), 400000))
    # single-operation pairs with a deeper preemption bound
    P_short = 1 if args.tier == 'quick' else 2
    ops = ['D', 'O', 'U', 'X', 'C', 'Dd', 'Oo', 'Uu', 'Xx', 'v', 'p'] if args.tier != 'quick' else ['D', 'U', 'X', 'Xx', 'Oo', 'p']
    for oa, ob in itertools.product(ops, ops):
        # schedule cap per pair: bound 1 always completes; bound 2 completes for the pairs with up to ~350 scheduling points and is
        # reported as partially explored (capped) for the longer ones - the evidence says which (pairs_bound_<k>, capped_pairs)
        jobs.append((P_short, ('Big', der['Big'][0], oa), ('Big', der['Big'][1], ob), 3000000 if args.tier == 'quick' else 60000))
        if args.tier != 'quick':
            jobs.append((P_short, ('Big', der['Big'][0], oa), ('Wide', der['Wide'][0], ob), 60000))

    def one(job):
        P, a, b, mx = job
        cmd = [exe, str(P), a[0], a[1], a[2], b[0], b[1], b[2], str(mx)]
        try:
            r = subprocess.run(cmd, stdout=subprocess.PIPE, stderr=subprocess.PIPE, timeout=3000)
            return r.returncode, r.stdout.decode(errors='replace'), r.stderr.decode(errors='replace')[-1500:], cmd
        except subprocess.TimeoutExpired:
            return -999, '', 'timeout', cmd
    stats = collections.Counter()
    samples = []
    bound = None
    with ThreadPoolExecutor(build.JOBS) as ex:
        for job, (rc, out, err, cmd) in zip(jobs, ex.map(one, jobs)):
            P, a, b, mx = job
            label = '%s:%s|%s:%s' % (a[0], a[2], b[0], b[2])
            if rc == -999:
                # the per-pair wall-clock limit is a cap on exploration, not an observation about the library
                stats['pairs_timed_out'] += 1
                stats['capped_pairs'] += 1
                continue
            if rc != 0 or 'sched points=' not in out:
                kind = 'harness_error' if 'sched ERR' in out else 'crash'
                chk.violation(dict(kind=kind, pair=label, detail=(out.strip() or err)[-200:]), dict(cmd=' '.join(cmd)[:3000], stdout=out[-2000:], stderr=err))
                continue
            kv, _ = common.parse_kv(out.strip().split('\n')[-1])
            stats['pairs'] += 1
            stats['schedules'] += int(kv['schedules'])
            stats['points'] += int(kv['total_points'])
            stats['max_points_per_run'] = max(stats['max_points_per_run'], int(kv['points']))
            if int(kv['capped']):
                stats['capped_pairs'] += 1
            bd = int(kv['bound_done'])
            stats['pairs_bound_%d' % bd] += 1
            if int(kv['viol']):
                chk.violation(dict(kind='result_differs_from_sequential', pair=label, first=kv.get('first', '')[:40]),
                              dict(cmd=' '.join(cmd)[:3000], detail=out.strip()[-1500:], note='replay: run the command; the schedule is named in first=P<k>:@<point indices>'))
            if len(samples) < 3:
                samples.append(dict(pair=label, preemption_bound=P, result=out.strip()[-220:]))
    # ---- free-running ThreadSanitizer pass over the long scripts
    tsan_env = dict(os.environ, TSAN_OPTIONS='halt_on_error=0:report_signal_unsafe=0:exitcode=0')

    def tsan_one(job):
        P, a, b, mx = job
        cmd = [exe_tsan, '200' if args.tier == 'quick' else '1000', a[0], a[1], a[2], b[0], b[1], b[2]]
        r = subprocess.run(cmd, stdout=subprocess.PIPE, stderr=subprocess.PIPE, env=tsan_env, timeout=3000)
        return r.returncode, r.stdout.decode(errors='replace'), r.stderr.decode(errors='replace'), cmd
    tj = jobs[:12]
    with ThreadPoolExecutor(4) as ex:
        for job, (rc, out, err, cmd) in zip(tj, ex.map(tsan_one, tj)):
            stats['tsan_pairs'] += 1
            if 'freerun runs=' in out:
                stats['tsan_runs'] += int(out.split('runs=')[1].split()[0])
                mm = int(out.split('mismatches=')[1].split()[0])
                if mm:
                    chk.violation(dict(kind='free_run_result_differs', pair='%s|%s' % (job[1][0], job[2][0])), dict(cmd=' '.join(cmd)[:3000], detail=out[-500:]))
            if 'WARNING: ThreadSanitizer' in err:
                import re
                m = re.search(r'#0 (\w+) [^\n]*(/repo/|/gen/)', err)
                chk.violation(dict(kind='data_race', site=(m.group(1) if m else '?')), dict(cmd=' '.join(cmd)[:3000], detail=err[:3000]))
            elif rc != 0:
                chk.violation(dict(kind='tsan_run_crash', pair='%s|%s' % (job[1][0], job[2][0])), dict(cmd=' '.join(cmd)[:3000], detail=err[-1500:]))
    shutil.rmtree(work, ignore_errors=True)
    cov = dict(states=stats['points'], transitions=stats['schedules'], traces_validated_against_impl=stats['schedules'],
               evaluations=stats['schedules'], distinct_nontrivial=stats['pairs'],
               preemption_bound_completed=dict(long_scripts=P_long, single_operation_pairs=P_short), pairs=stats['pairs'], tsan_free_runs=stats['tsan_runs'],
               rule='two pthreads, each running a script on its own structure (first op: BER decode; then encode DER/OER/UPER/BASIC-XER/CANONICAL-XER, decode of those bytes, '
                    'check_constraints, print, compare, free) over three generated types covering every skeleton type; scheduling points = every entry/exit of every library and '
                    'generated function (-finstrument-functions), every malloc/calloc/realloc/free, and the output callback before it copies. ALL schedules with <= P preemptions '
                    'are executed (P=%d for 12 long-script pairs in both orders, P=%d for all %d single-operation pairs); oracle: every thread transcript (rc, consumed, errno, bytes, '
                    'text) equals the transcript of the same script run alone; replaying a schedule must reproduce its point count. states = scheduling points visited, '
                    'transitions = schedules executed (each is a real execution). Separately %d free-running runs under ThreadSanitizer.' % (
                        P_long, P_short, len(jobs) - 12, stats['tsan_runs']),
               samples=samples, stats=dict(stats),
               trusted_base=['serialising scheduler drv/sched.c (mutex/condvar hand-off)', 'gcc -finstrument-functions', 'ThreadSanitizer for the free-running pass'])
    chk.assumptions += ['weak-memory reorderings and races between two scheduling points are only covered by the free-running TSan pass', 'asn_random_fill and ASN_DEBUG-only static buffers are outside the property']
    return chk.finish(cov, exhaustive=(stats['capped_pairs'] == 0))
