"""C14: structure lifecycle - leak-free, double-free-free, RESET really resets - after any history of
decode-prefix / continue / garbage / reset / encode / free with any single allocation failure.
Breadth-first exploration with canonical heap-image state matching done by the driver's `life` command."""
from tools import common, corpus
from checks import base
from gen import features
from ref import asn1ast as A, ber, uper, oer


def make_worker(tier):
    depth = 3 if tier == 'quick' else 5
    faults = 1

    def worker(b):
        o = base.Out()
        items = []
        xsrc = []
        for c in b.cases:
            if c.family == 'S6' and c.label.startswith('long/'):
                continue
            t = b.mod.types[c.name]
            vals = corpus.case_values(b, c)
            if not vals:
                continue
            pick = [vals[len(vals) // 2]]
            if tier != 'quick':
                pick.append(max(vals, key=lambda x: len(x[1])))
            for v, d in pick:
                if len(d) > (48 if tier == 'quick' else 96):
                    continue
                fe = features.features(b.mod, t, v)
                mask = ''   # (types without a PER/OER codec used to crash here; repaired, so nothing is masked any more)
                items.append((c, 'ber', d, v, fe, mask))
                if not mask:
                    for syn, fn in (('oer', oer.encode), ('uper', uper.encode)):
                        try:
                            items.append((c, syn, fn(b.mod, t, v), v, fe, mask))
                        except Exception:
                            pass
                if 'k:REAL' not in fe:
                    xsrc.append((c, d, v, fe, mask))
        res = common.run_driver(b.exe, ['enc %s cxer %s' % (c.name, d.hex()) for c, d, v, fe, mask in xsrc], watchdog=20)
        for (c, d, v, fe, mask), r in zip(xsrc, res):
            if r.crash is None and ' out=' in (r.line or '') and ' out=E' not in r.line:
                hx = r.line.split(' out=')[1].strip()
                x = b'' if hx == '-' else bytes.fromhex(hx)
                if 0 < len(x) <= (64 if tier == 'quick' else 128):
                    items.append((c, 'cxer', x, v, fe, mask))
        lines = ['life %s %s %s %d %d 20000%s' % (c.name, syn, enc.hex(), depth, faults, (' mask=' + mask) if mask else '') for c, syn, enc, v, fe, mask in items if len(enc) > 0]
        items = [i for i in items if len(i[2]) > 0]
        res = common.run_driver(b.exe, lines, watchdog=300)
        for (c, syn, enc, v, fe, mask), r, line in zip(items, res, lines):
            fl = sorted(fe)

            def viol(kind, detail):
                o.v(b, c, kind, syn, detail, value=v, cmd=line[:4000], observed=(r.line or r.crash or ''), feats=fl, extra=dict(encoding=enc.hex()[:2000]))
            if r.crash is not None:
                viol('crash', r.crash[-1500:])
                continue
            if 'oneshot=' in r.line:
                o.stats['oneshot_not_ok'] += 1
                continue
            kv, _ = common.parse_kv(r.line)
            o.stats['encodings'] += 1
            o.stats['states'] += int(kv.get('states', 0))
            o.stats['transitions'] += int(kv.get('transitions', 0))
            o.stats['fault_runs'] += int(kv.get('faults', 0))
            o.stats['faults_fired'] += int(kv.get('fired', 0))
            if int(kv.get('capped', 0)):
                o.stats['state_cap_hit'] += 1
            if int(kv.get('fired', 0)) > 0:
                o.distinct.add((c.label, syn, enc))
            if int(kv.get('viol', 0)):
                vs = [tok[2:] for tok in r.line.split() if tok.startswith('v=')]
                for k in sorted(set(x.split(':')[0] for x in vs)):
                    viol(k, ' '.join(x for x in vs if x.startswith(k))[:600])
            if len(o.samples) < 1 and int(kv.get('states', 0)) > 10:
                o.samples.append(dict(type=A.type_text(b.mod, b.mod.types[c.name], 0)[:200], syntax=syn, encoding=enc.hex()[:120], result=r.line[:200],
                                      history_alphabet='P(p)=present bytes up to p, G=garbage block, Z=RESET, E(s)=encode, F=FREE; every transition re-run with the k-th allocation failing'))
        return o
    return worker


def run(args):
    chk = common.Check('C14', 'fault_enumeration', args.tier)
    fams = base.families_for(args.tier, args.families, quick=('S0', 'S1', 'S5'), thorough=('S0', 'S1', 'S2', 'S4', 'S5'))
    stats, distinct, samples = base.run_sweep(chk, args, make_worker(args.tier), fams=fams, shape_tier='quick')
    cov = dict(evaluations=stats['transitions'] + stats['fault_runs'], distinct_nontrivial=len(distinct),
               states=stats['states'], transitions=stats['transitions'], traces_validated_against_impl=stats['transitions'],
               fault_runs=stats['fault_runs'], faults_fired=stats['faults_fired'],
               rule='for BER/OER/UPER/CANONICAL-XER encodings of the typical value of every type of families %s: breadth-first search to depth %d over histories of '
                    '{present bytes up to every p, garbage block x3, RESET, encode x5, FREE} with canonical heap-image state matching; every explored transition is re-run '
                    'with the k-th allocation failing for EVERY k the operation reaches, followed by FREE, and by RESET + full decode (must equal the reference state). '
                    'Oracle: ledger empty and no unknown/double free after FREE; RESET leaves exactly one all-zero block; decode after RESET reaches the same canonical '
                    'state as a fresh decode; RC_OK despite a failed allocation must still carry the right value. non-trivial = encodings where injected failures fired' % (
                        ','.join(fams), 3 if args.tier == 'quick' else 5),
               samples=samples, stats=dict(stats), trusted_base=['allocation ledger + fault injector (drv/ledger.c, --wrap)', 'canonical heap image', 'ASan/UBSan'])
    return chk.finish(cov, exhaustive=(stats['state_cap_hit'] == 0))
