"""C06: canonical encodings depend only on the abstract value, not on its in-memory representation.
(i) structures obtained by decoding every non-canonical BER variant (C03's enumerator), (ii) walker
transformations of the structure: SET OF permutations, sign-extension padding of INTEGER_t, DEFAULT
materialised/dropped, unused-bit garbage in BIT STRINGs, spare buffer capacity."""
from tools import common, corpus
from checks import base
from gen import features
from ref import asn1ast as A, ber


def make_worker(tier):
    k = 1 if tier == 'quick' else 2

    def worker(b):
        o = base.Out()
        lines, meta = [], []
        for c in b.cases:
            if c.family == 'S6' and c.label.startswith('long/'):
                # lists long enough for fragmented PER lengths: only the in-memory transformations (reverse / rotate / ...)
                if b.mod.resolve(b.mod.types[c.name]).kind == 'SET OF':
                    for v, d in corpus.case_values(b, c, big=True):
                        if len(v) in (16385, 32768, 65537):
                            lines.append('xform %s %s' % (c.name, d.hex()))
                            meta.append((c, v, d, features.features(b.mod, b.mod.types[c.name], v[:3]) | {'long_list'}, 'xform', None))
                continue
            t = b.mod.types[c.name]
            for v, d in corpus.case_values(b, c):
                fe = features.features(b.mod, t, v)
                mask = ''   # (types without a PER/OER codec used to crash here; repaired, so nothing is masked any more)
                lines.append('xform %s %s%s' % (c.name, d.hex(), (' mask=' + mask) if mask else ''))
                meta.append((c, v, d, fe, 'xform', None))
                # representation obtained by decoding a non-canonical BER form: canonical outputs must equal those of the DER-built one
                try:
                    vs = ber.variants(lambda ch: ber.encode_policy(b.mod, t, v, ch), k, cap=60)
                except Exception:
                    vs = []
                for enc, ch in vs:
                    if not ch.deviations() or ch.features & {'mixed_chain', 'constructed_string_retagged'}:
                        continue
                    if not (ch.features & {'default_present', 'set_reordered', 'setof_reordered', 'constructed_string'} or any(l == 'true' for _, l, _ in ch.deviations())):
                        continue
                    lines.append('canon2 %s %s %s%s' % (c.name, d.hex(), enc.hex(), (' mask=' + mask) if mask else ''))
                    meta.append((c, v, d, fe | ch.features, 'canon2', enc))
        res = common.run_driver(b.exe, lines, watchdog=30)
        for (c, v, d, fe, what, enc), r, line in zip(meta, res, lines):
            fl = sorted(fe)

            def viol(kind, syn, detail):
                o.v(b, c, kind, syn, detail, value=v, cmd=line[:5000], observed=(r.line or r.crash or ''), feats=fl, extra=dict(ref_der=d.hex()[:2000]))
            if r.crash is not None:
                viol('crash', 'any', r.crash[-1500:])
                continue
            kv, _ = common.parse_kv(r.line)
            o.stats['evaluations'] += int(kv.get('transforms', 1))
            for key in ('setof', 'intpad', 'bits', 'default', 'spare'):
                o.stats['xf:' + key] += int(kv.get(key, 0))
            if what == 'canon2':
                o.stats['decode_from_variant'] += 1
            if int(kv.get('transforms', 0)) > 0 or what == 'canon2':
                o.distinct.add((c.label, d, enc))
            if int(kv.get('viol', 0)):
                for tok in r.line.split():
                    if tok.startswith('v='):
                        x = tok[2:]
                        what_, _, rest = x.partition('@')
                        syn = rest.rsplit(':', 1)[-1].replace('_differs', '') if ':' in rest else 'any'
                        viol(what_ if what_ else 'differs', syn, x)
            if len(o.samples) < 1 and int(kv.get('transforms', 0)) > 2:
                o.samples.append(dict(type=A.type_text(b.mod, b.mod.types[c.name], 0)[:200], value=repr(v)[:120], result=r.line[:200]))
        return o
    return worker


def run(args):
    chk = common.Check('C06', 'exploration', args.tier)
    fams = base.families_for(args.tier, args.families, quick=('S0', 'S1', 'S2', 'S4', 'S5', 'S6'), thorough=('S0', 'S1', 'S2', 'S3', 'S4', 'S5', 'S6'))
    stats, distinct, samples = base.run_sweep(chk, args, make_worker(args.tier), fams=fams, shape_tier='quick', opts=('-fwide-types',))
    cov = dict(evaluations=stats['evaluations'], distinct_nontrivial=len(distinct),
               rule='types of families %s compiled with -fwide-types (so INTEGER_t padding exists); for every value: each single transformation of the decoded structure '
                    '(all permutations of SET OF arrays up to 4 elements, rotations+reversal beyond; INTEGER_t/ENUMERATED_t padded by 1 and 9 sign octets; DEFAULT member '
                    'materialised / dropped; unused bits of BIT STRING set; spare capacity behind OCTET STRING) and each structure decoded from a non-canonical BER variant; '
                    'DER, CANONICAL-XER, UPER, OER must be byte-identical to those of the untouched structure and compare_struct must return 0' % ','.join(fams),
               samples=samples, stats=dict(stats), trusted_base=['drv/xform.c generic descriptor walker', 'ref/ber.py variants', 'ASan/UBSan'])
    return chk.finish(cov)
