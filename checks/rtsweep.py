"""Shared sweep for C01 (round trip / transcoding) and C02 (byte-exact DER/UPER/OER): every (type, value) of
the enumerated shape families goes through the driver's `rt` command; the Python reference supplies the
expected bytes."""
import os, shutil, time, collections
from tools import build, common, corpus
from gen import typegen, values, features
from ref import asn1ast as A, ber, uper, oer

SYN = ['der', 'oer', 'uper', 'xer', 'cxer']


def families_for(tier, arg):
    if arg:
        return arg.split(',')
    return ['S0', 'S1', 'S2', 'S4', 'S5', 'S6'] if tier == 'quick' else ['S0', 'S1', 'S2', 'S3', 'S4', 'S5', 'S6']


def sweep(chk, args, want_c01, want_c02, opts=(), flavour='asan', defines=(), workname=None, cases=None, two=None):
    tier = args.tier
    fams = families_for(tier, getattr(args, 'families', None))
    if cases is None:
        cases = typegen.cases(tier, fams)
    work = os.path.join(build.BUILD, workname or ('rt-%s-%d' % (chk.prop, os.getpid())))
    batches, failures = corpus.build_corpus(cases, work, flavour=flavour, opts=opts, defines=defines)
    stats = collections.Counter()
    distinct = set()
    samples = []
    for c, err, text in failures:
        stats['types_not_built'] += 1
        chk.violation(dict(kind='type_not_built', family=c.family, label=c.label),
                      dict(module=text, error=err, note='asn1c rejected the module or the generated C did not compile'))
    two = (tier == 'thorough') if two is None else two
    for b in batches:
        lines, meta = [], []
        for c in b.cases:
            big = (c.family == 'S6' and c.label.startswith('long/'))
            for v, d in corpus.case_values(b, c, two=two and c.family in ('S1', 'S2', 'S4'), big=big):
                lines.append('rt %s %s' % (c.name, d.hex()))
                meta.append((c, v, d))
        stats['types'] += len(b.cases)
        res = common.run_driver_parallel(b.exe, lines, watchdog=20)
        for (c, v, d), r in zip(meta, res):
            stats['values'] += 1
            t = b.mod.types[c.name]
            feats = sorted(features.features(b.mod, t, v))

            def viol(kind, syntax, detail, c=c, v=v, d=d, feats=feats, b=b, r=r):
                sig = dict(kind=kind, syntax=syntax, family=c.family, label=c.label, features=feats)
                chk.violation(sig, dict(module=b.text, type=c.name, value=repr(v), ref_der=d.hex(), cmd='rt %s %s' % (c.name, d.hex()),
                                        observed=(r.line or r.crash or '')[:3000], detail=detail, asn1c_opts=list(opts)))
                stats['viol:' + kind] += 1
            if r.crash is not None:
                viol('crash', 'any', r.crash[-1500:])
                continue
            kv, flags = common.parse_kv(r.line)
            if kv.get('rc') != '0' or kv.get('consumed', '').split('/')[0] != str(len(d)):
                viol('ref_der_rejected', 'ber', r.line[:300])
                continue
            nontriv = len(d) >= 3
            encs = {}
            for s in SYN:
                x = kv.get(s, 'E?')
                if x.startswith('E'):
                    encs[s] = None
                    if want_c01:
                        viol('enc_fail', s, 'errno=' + x[1:])
                else:
                    encs[s] = b'' if x == '-' else bytes.fromhex(x)
            stats['evaluations'] += 25
            if want_c01:
                for f in flags:
                    parts = f.split(':')
                    if parts[0] == 'der0':
                        continue
                    if parts[0] == 'dec':
                        c_, n_ = parts[3][1:].split('/')
                        if parts[1] == 'xer' and parts[2] == 'rc0' and int(c_) == int(n_) - 1:
                            viol('basic_xer_trailing_lf_not_consumed', 'xer', f)
                        else:
                            viol('dec_own_output', parts[1], f)
                    elif parts[0] == 'cmp':
                        viol('compare_nonzero', parts[1], f)
                    elif parts[0] == 'rder':
                        viol('value_changed', parts[1], f)
                    elif parts[0] == 'trans':
                        viol('transcode_changed', parts[1], f)
                    else:
                        viol('flag', 'any', f)
                if kv.get('leak') != '0' or kv.get('badfree') != '0':
                    viol('leak', 'any', 'leak=%s badfree=%s' % (kv.get('leak'), kv.get('badfree')))
            if want_c02:
                exp = {'der': d}
                try:
                    exp['uper'] = uper.encode(b.mod, t, v)
                except Exception as e:
                    exp['uper'] = None
                    stats['ref_uper_undefined'] += 1
                try:
                    exp['oer'] = oer.encode(b.mod, t, v)
                except Exception as e:
                    exp['oer'] = None
                    stats['ref_oer_undefined'] += 1
                for s in ('der', 'uper', 'oer'):
                    if exp[s] is None:
                        continue
                    stats['c02_compared:' + s] += 1
                    if encs[s] is None:
                        viol('enc_fail', s, 'encoder failed where the reference defines an encoding')
                    elif encs[s] != exp[s]:
                        viol('bytes_differ', s, 'expected=%s observed=%s' % (exp[s].hex()[:400], encs[s].hex()[:400]))
            if nontriv and len(set(x for x in encs.values() if x is not None)) >= 4:
                distinct.add((c.name, b.mod.name, d))
            if len(samples) < 6 and nontriv and stats['values'] % 97 == 1:
                samples.append(dict(type=A.type_text(b.mod, t, 0)[:300], value=repr(v)[:200], der=d.hex()[:120],
                                    uper=(encs['uper'] or b'').hex()[:120], oer=(encs['oer'] or b'').hex()[:120]))
        if not getattr(args, 'keep', False):
            shutil.rmtree(b.dir, ignore_errors=True)
    if not getattr(args, 'keep', False):
        shutil.rmtree(work, ignore_errors=True)
    return stats, distinct, samples
