"""Shared sweep for C01 (round trip / transcoding), C02 (byte-exact DER/UPER/OER) and C13 (options): every
(type, value) of the enumerated shape families goes through the driver's `rt` command; the Python reference
supplies the expected bytes."""
import os, collections
from tools import build, common, corpus
from checks import base
from gen import typegen, values, features
from ref import asn1ast as A, ber, uper, oer

SYN = ['der', 'oer', 'uper', 'xer', 'cxer']
families_for = base.families_for


def make_worker(want_c01, want_c02, two, opts=(), skip_syntax=(), extra_sig=None):
    def worker(b):
        o = base.Out()
        o.extra_sig = dict(extra_sig or {})
        lines, meta = [], []
        for c in b.cases:
            big = (c.family == 'S6' and c.label.startswith('long/'))
            for v, d in corpus.case_values(b, c, two=two and c.family in ('S1', 'S2', 'S4'), big=big):
                fe = features.features(b.mod, b.mod.types[c.name], v)
                mask = []
                lines.append('%s %s %s%s' % ('rtl' if big else 'rt', c.name, d.hex(), (' ' + ','.join(mask)) if mask else ''))
                meta.append((c, v, d))
        res = common.run_driver(b.exe, lines, watchdog=30)
        for (c, v, d), r, line in zip(meta, res, lines):
            o.stats['values'] += 1
            t = b.mod.types[c.name]
            feats = sorted(features.features(b.mod, t, v))

            def viol(kind, syntax, detail):
                o.v(b, c, kind, syntax, detail, value=v, cmd=line[:4000], observed=(r.line or r.crash or ''), feats=feats,
                    extra=dict(ref_der=d.hex()[:4000], asn1c_opts=list(opts)))
            if r.crash is not None:
                viol('crash', 'any', r.crash[-1500:])
                continue
            kv, flags = common.parse_kv(r.line)
            if kv.get('rc') != '0' or kv.get('consumed', '').split('/')[0] != str(len(d)):
                viol('ref_der_rejected', 'ber', r.line[:300])
                continue
            nontriv = len(d) >= 3
            encs = {}
            skipped = set(skip_syntax)
            for s in SYN:
                x = kv.get(s, 'skip')
                if x == 'skip' or s in skip_syntax:
                    encs[s] = None
                    skipped.add(s)
                    if x == 'skip' and s in ('uper', 'oer'):
                        o.stats['masked_by_known_finding:' + s] += 1
                elif x.startswith('E'):
                    encs[s] = None
                    if want_c01:
                        viol('enc_fail', s, 'errno=' + x[1:])
                else:
                    encs[s] = b'' if x == '-' else bytes.fromhex(x)
            o.stats['evaluations'] += 25
            if want_c01:
                for f in flags:
                    parts = f.split(':')
                    if parts[0] in ('der0', 'transbytes'):
                        continue
                    if parts[0] == 'dec':
                        c_, n_ = parts[3][1:].split('/')
                        if parts[1] == 'xer' and parts[2] == 'rc0' and int(c_) == int(n_) - 1:
                            viol('basic_xer_trailing_lf_not_consumed', 'xer', f)
                        else:
                            viol('dec_own_output', parts[1], f)
                    elif parts[0] == 'cmp':
                        viol('compare_nonzero', parts[1], f)
                    elif parts[0] == 'rder':
                        viol('value_changed', parts[1], f)
                    elif parts[0] == 'trans':
                        viol('transcode_changed', parts[1], f)
                    else:
                        viol('flag', 'any', f)
                if kv.get('leak') != '0' or kv.get('badfree') != '0':
                    viol('leak', 'any', 'leak=%s badfree=%s' % (kv.get('leak'), kv.get('badfree')))
            if want_c02:
                exp = {'der': d}
                for s, fn in (('uper', uper.encode), ('oer', oer.encode)):
                    try:
                        exp[s] = fn(b.mod, t, v)
                    except Exception as e:
                        exp[s] = None
                        o.stats['ref_%s_undefined' % s] += 1
                for s in ('der', 'uper', 'oer'):
                    if exp[s] is None or s in skipped:
                        continue
                    o.stats['c02_compared:' + s] += 1
                    if encs[s] is None:
                        viol('enc_fail', s, 'encoder failed where the reference defines an encoding: ' + kv.get(s, ''))
                    elif encs[s] != exp[s]:
                        kind = 'bytes_differ'
                        if s == 'oer' and 'setof_multi' in feats:
                            # attribute the difference: is the observed encoding exactly the canonical one with the SET OF
                            # elements left in their in-memory (= DER) order?
                            try:
                                if oer.encode(b.mod, t, v, oer.DerOrder()) == encs[s]:
                                    kind = 'bytes_differ_setof_memory_order'
                            except Exception:
                                pass
                        viol(kind, s, 'expected=%s observed=%s' % (exp[s].hex()[:400], encs[s].hex()[:400]))
            if nontriv and len(set(x for x in encs.values() if x is not None)) >= 3:
                o.distinct.add((c.label, d))
            if len(o.samples) < 2 and nontriv and o.stats['values'] % 97 == 1:
                o.samples.append(dict(type=A.type_text(b.mod, t, 0)[:300], value=repr(v)[:200], der=d.hex()[:120],
                                      uper=(encs['uper'] or b'').hex()[:120], oer=(encs['oer'] or b'').hex()[:120]))
        return o
    return worker


def sweep(chk, args, want_c01, want_c02, opts=(), flavour='asan', defines=(), workname=None, cases=None, two=None, skip_syntax=(), fams=None, extra_sig=None):
    tier = args.tier
    fams = fams or families_for(tier, getattr(args, 'families', None))
    two = (tier == 'thorough') if two is None else two
    return base.run_sweep(chk, args, make_worker(want_c01, want_c02, two, opts, skip_syntax, extra_sig), cases=cases, fams=fams, flavour=flavour,
                          opts=opts, defines=defines, workname=workname)
