"""C12: compiler output is deterministic and invariant under the pretty-print round trip."""
import os, subprocess, shutil, glob, itertools, collections, re, hashlib
from concurrent.futures import ThreadPoolExecutor
from tools import build, common
from gen import typegen
from ref import asn1ast as A

SKEL = os.path.join(build.REPO, 'skeletons')


def asn1c_run(exe, args, cwd=None, env=None, prefix=()):
    r = subprocess.run(list(prefix) + [exe, '-S', SKEL] + list(args), stdout=subprocess.PIPE, stderr=subprocess.PIPE, cwd=cwd, env=env, timeout=120)
    return r.returncode, r.stdout, r.stderr


def strip_header(out):
    """drop the comment lines that name the input file / asn1c invocation"""
    keep = []
    for l in out.split(b'\n'):
        if l.startswith(b' * From ASN.1 module') or l.startswith(b' * \tfound in ') or l.startswith(b' * \t`asn1c ') or l.startswith(b'/*** <<<') and False:
            continue
        keep.append(l)
    return b'\n'.join(keep)


def file_set(d):
    out = {}
    for f in sorted(os.listdir(d)):
        p = os.path.join(d, f)
        if os.path.isfile(p):
            with open(p, 'rb') as fh:
                out[f] = hashlib.sha256(strip_header(fh.read())).hexdigest()
    return out


def run(args):
    chk = common.Check('C12', 'exploration', args.tier)
    exe = build.asn1c()
    work = os.path.join(build.BUILD, 'c12-%d' % os.getpid())
    shutil.rmtree(work, ignore_errors=True)
    os.makedirs(work)
    stats = collections.Counter()
    samples = []
    distinct = set()
    # ---- corpus
    corpus = []   # (label, [file paths], generated?)
    fams = ['S0', 'S1', 'S2', 'S4', 'S5'] if args.tier == 'quick' else ['S0', 'S1', 'S2', 'S3', 'S4', 'S5', 'S6']
    cases = typegen.cases('quick' if args.tier == 'quick' else 'thorough', fams)
    for i, (mod, cs) in enumerate(typegen.pack(cases, 40)):
        p = os.path.join(work, 'gen%d.asn1' % i)
        with open(p, 'w') as f:
            f.write(A.module_text(mod))
        corpus.append(('gen%d' % i, [p], True))
    # printer alphabets: every string over {a, "} of length <= 4 as DEFAULT, value assignment and single-value constraint (quote doubling),
    # and one module with each value-notation / constraint form that asn1c -E prints
    strs = ['']
    for n in range(1, 5):
        strs += [''.join(x) for x in itertools.product('a"', repeat=n)]
    mem, lines = [], []
    for i, sv in enumerate(strs):
        q = '"' + sv.replace('"', '""') + '"'
        mem.append('  m%d IA5String DEFAULT %s' % (i, q))
        lines.append('v%d IA5String ::= %s' % (i, q))
        lines.append('C%d ::= IA5String (%s)' % (i, q))
    p = os.path.join(work, 'printq.asn1')
    with open(p, 'w') as f:
        f.write('PrintQ DEFINITIONS AUTOMATIC TAGS ::= BEGIN\nS ::= SEQUENCE {\n' + ',\n'.join(mem) + '\n}\n' + '\n'.join(lines) + '\nEND\n')
    corpus.append(('printq', [p], True))
    p = os.path.join(work, 'printv.asn1')
    shutil.copy(os.path.join(build.VERIF, 'gen', 'printer_values.asn1'), p)
    corpus.append(('printv', [p], True))
    # constraint expressions through the printer: every tree with two binary operators from {|, ^, EXCEPT} over three range atoms, in
    # both association shapes ((a op b) op c and a op (b op c)); the printed module must parse back to the same constraint, which
    # it only does if the printer keeps exactly the parentheses that precedence requires
    from checks import c09 as _c09
    at = [_c09.Atom(1, 5), _c09.Atom(7, 9), _c09.Atom(3, 8)]
    lines = []
    for o1, o2 in itertools.product(('|', '^', 'EXCEPT'), repeat=2):
        for a, b, c in itertools.product(at, repeat=3):
            for tree in (_c09.Bin(o1, _c09.Bin(o2, a, b), c), _c09.Bin(o1, a, _c09.Bin(o2, b, c))):
                if tree.true_set():
                    lines.append('K%d ::= INTEGER (%s)' % (len(lines), tree.text()))
                    lines.append('Z%d ::= OCTET STRING (SIZE(%s))' % (len(lines), tree.text()))
    for j in range(0, len(lines), 200):
        p = os.path.join(work, 'printc%d.asn1' % (j // 200))
        with open(p, 'w') as f:
            f.write('PrintC%d DEFINITIONS AUTOMATIC TAGS ::= BEGIN\n' % (j // 200) + '\n'.join(lines[j:j + 200]) + '\nEND\n')
        corpus.append(('printc%d' % (j // 200), [p], True))
    shipped = sorted(glob.glob(os.path.join(build.REPO, 'tests/tests-asn1c-compiler/*-OK.asn1'))) + sorted(glob.glob(os.path.join(build.REPO, 'examples/*.asn1')))
    for p in shipped:
        try:
            text = open(p, errors='replace').read()
        except OSError:
            continue
        # the property covers modern syntax only: X.208-era modules (ANY [DEFINED BY], MACRO) are left out
        if re.search(r'\bANY\b|\bMACRO\b', text) or 'old-syntax' in p:
            stats['skipped_old_syntax'] += 1
            continue
        if args.tier == 'quick' and len(text) > 60000:
            stats['skipped_large_in_quick'] += 1
            continue
        corpus.append(('shipped:' + os.path.basename(p), [p], False))
    # multi-module sets with IMPORTS (file-order permutations)
    multi = []
    for n in (2, 3):
        files = []
        for j in range(n):
            p = os.path.join(work, 'imp%d_%d.asn1' % (n, j))
            imports = ''
            body = 'T%d ::= SEQUENCE { a INTEGER (0..%d), b BOOLEAN OPTIONAL' % (j, 10 + j)
            if j > 0:
                imports = 'IMPORTS T%d FROM Mod%d%d;\n' % (j - 1, n, j - 1)
                body += ', c T%d' % (j - 1)
            body += ' }\nE%d ::= ENUMERATED { x%d(0), y%d(1) }\n' % (j, j, j)
            with open(p, 'w') as f:
                f.write('Mod%d%d DEFINITIONS AUTOMATIC TAGS ::= BEGIN\n%s%sEND\n' % (n, j, imports, body))
            files.append(p)
        multi.append(('imports%d' % n, files))

    def viol(kind, label, detail, files, extra=None):
        texts = []
        for f in files[:3]:
            try:
                texts.append(open(f, errors='replace').read()[:6000])
            except OSError:
                pass
        chk.violation(dict(kind=kind, label=label if label.startswith('shipped') else label.rstrip('0123456789')), dict(module='\n'.join(texts), files=files, detail=detail, **(extra or {})))

    bigenv = dict(os.environ, VERIF_PADDING='x' * 4096, MALLOC_PERTURB_='165')

    def det(item):
        label, files, gen = item
        res = []
        rc0, out0, err0 = asn1c_run(exe, ['-P'] + files)
        if rc0 < 0:
            res.append(('asn1c_killed_by_signal', label, 'signal %d' % -rc0, files))
            return res, 0
        if rc0 != 0:
            return res, 0      # not accepted: nothing to compare (C10/C11 matter)
        n = 1
        for tag, kw in (('again', {}), ('noaslr', dict(prefix=('setarch', 'x86_64', '-R'))), ('othercwd_env', dict(cwd='/', env=bigenv))):
            rc, out, err = asn1c_run(exe, ['-P'] + files, **kw)
            n += 1
            if rc != rc0 or out != out0:
                res.append(('nondeterministic_output', label, 'run "%s" differs from the first run (exit %d vs %d, %d vs %d bytes)' % (tag, rc, rc0, len(out), len(out0)), files))
        # emitted file set twice
        # same relative -D name from two different working directories (the -D path is echoed into the emitted Makefile)
        safe = label.replace('/', '_').replace(':', '_')
        c1, c2 = os.path.join(work, 'o1_' + safe), os.path.join(work, 'o2_' + safe)
        d1, d2 = os.path.join(c1, 'out'), os.path.join(c2, 'out')
        os.makedirs(d1); os.makedirs(d2)
        asn1c_run(exe, ['-no-gen-example', '-D', 'out'] + files, cwd=c1)
        asn1c_run(exe, ['-no-gen-example', '-D', 'out'] + files, cwd=c2, env=bigenv)
        fs1, fs2 = file_set(d1), file_set(d2)
        if fs1 != fs2:
            diff = sorted(k for k in set(fs1) | set(fs2) if fs1.get(k) != fs2.get(k))
            res.append(('nondeterministic_file_set', label, 'two -D runs emitted different files/contents: %s' % diff[:8], files))
        shutil.rmtree(c1, ignore_errors=True); shutil.rmtree(c2, ignore_errors=True)
        # print / parse fixpoint
        # the fixpoint is promised for plain -E; -E -F prints the *fixed* tree (automatic tags materialised, imports resolved)
        # which is not meant to be re-read, so for -F only determinism is checked
        rcf, pf1, _ = asn1c_run(exe, ['-E', '-F'] + files)
        rcg, pf2, _ = asn1c_run(exe, ['-E', '-F'] + files, env=bigenv)
        n += 2
        if rcf != rcg or pf1 != pf2:
            res.append(('nondeterministic_output', label, 'asn1c -E -F differs between two runs', files))
        for mode in (['-E'],):
            rc1, p1, e1 = asn1c_run(exe, mode + files)
            if rc1 != 0:
                continue
            f1 = os.path.join(work, 'p1_%s_%d.asn1' % (label.replace('/', '_').replace(':', '_'), len(mode)))
            with open(f1, 'wb') as fh:
                fh.write(p1)
            rc2, p2, e2 = asn1c_run(exe, mode + [f1])
            n += 2
            if rc2 != 0:
                res.append(('printed_module_rejected', label, 'asn1c %s output is not accepted by asn1c %s: %s' % (' '.join(mode), ' '.join(mode), e2.decode(errors='replace')[-300:]), files, ))
            elif p2 != p1:
                res.append(('print_not_fixpoint', label, 'asn1c %s applied twice differs (%d vs %d bytes)' % (' '.join(mode), len(p1), len(p2)), files))
            elif gen and mode == ['-E']:
                rc3, out3, e3 = asn1c_run(exe, ['-P', f1])
                n += 1
                if rc3 != 0 or strip_header(out3) != strip_header(out0):
                    res.append(('printed_module_compiles_differently', label, 'asn1c -P of the -E output differs from asn1c -P of the original (exit %d)' % rc3, files))
            os.unlink(f1)
        return res, n

    items = corpus
    with ThreadPoolExecutor(build.JOBS) as ex:
        for (label, files, gen), (res, n) in zip(items, ex.map(det, items)):
            stats['modules'] += 1
            stats['evaluations'] += n
            if n > 1:
                distinct.add(label)
            for kind, lab, detail, fl in res:
                viol(kind, lab, detail, fl)
            if len(samples) < 3 and n > 1 and stats['modules'] % 17 == 1:
                samples.append(dict(label=label, files=[os.path.basename(f) for f in files], runs=n))
    # file-order permutations
    for label, files in multi:
        base = None
        for perm in itertools.permutations(files):
            d = os.path.join(work, 'perm')
            shutil.rmtree(d, ignore_errors=True)
            os.makedirs(d)
            rc, out, err = asn1c_run(exe, ['-no-gen-example', '-D', d] + list(perm))
            stats['evaluations'] += 1
            if rc != 0:
                viol('multi_module_rejected', label, 'exit %d: %s' % (rc, err.decode(errors='replace')[-300:]), list(perm))
                continue
            fs = {k: v for k, v in file_set(d).items() if not k.startswith('Makefile') and k not in ('pdu_collection.c',)}
            if base is None:
                base = fs
            elif fs != base:
                diff = sorted(k for k in set(fs) | set(base) if fs.get(k) != base.get(k))
                viol('output_depends_on_file_order', label, 'files that differ: %s' % diff[:10], list(perm))
            distinct.add((label, perm))
    shutil.rmtree(work, ignore_errors=True)
    if not samples:
        samples.append(dict(label=corpus[0][0]))
    cov = dict(evaluations=stats['evaluations'], distinct_nontrivial=len(distinct), programs=stats['modules'],
               rule='corpus = generated 40-type modules of families %s + shipped modern-syntax corpus (tests/tests-asn1c-compiler/*-OK.asn1, examples/*.asn1) + generated 2- and '
                    '3-module sets with IMPORTS. Per accepted module: asn1c -P four times (again, setarch -R, other cwd + 4 KiB larger environment + MALLOC_PERTURB_) must be '
                    'byte-identical; two -D runs emit identical file sets; P1=asn1c -E M must be accepted and asn1c -E P1 == P1 (also with -F); for generated modules asn1c -P P1 '
                    'equals asn1c -P M modulo the header comment; every permutation of the file list of the IMPORTS sets yields identical per-type files' % ','.join(fams),
               samples=samples, stats=dict(stats), trusted_base=['byte comparison of asn1c outputs'])
    return chk.finish(cov)
