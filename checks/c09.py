"""C09: PER/OER-visible constraints are the set-theoretic effective constraint.
All constraint expression trees over the universe {MIN,0,1,2,3,MAX} up to an operator-nesting bound (plus a ladder
of 64-bit boundary atoms) are compiled; the ranges printed by `asn1c -E -F -print-constraints` (O1) and the
asn_PER/OER constraint tables emitted by `asn1c -P` (O2) must equal the reference effective constraint computed by
brute-force interval-set semantics with the X.691 10.3 / X.696 8.2 visibility rules."""
import os, re, subprocess, shutil, itertools, collections
from concurrent.futures import ThreadPoolExecutor
from tools import build, common

INF = float('inf')


# ---------------------------------------------------------------- interval sets over the integers with +-inf ends
def norm(iv):
    iv = sorted((a, b) for a, b in iv if a <= b)
    out = []
    for a, b in iv:
        if out and a <= out[-1][1] + 1:
            out[-1] = (out[-1][0], max(out[-1][1], b))
        else:
            out.append((a, b))
    return tuple(out)


def union(x, y):
    return norm(list(x) + list(y))


def inter(x, y):
    return norm([(max(a, c), min(b, d)) for a, b in x for c, d in y])


def compl(x):
    out, cur = [], -INF
    for a, b in x:
        if a > cur:
            out.append((cur, a - 1))
        cur = b + 1
    if cur <= INF:
        out.append((cur, INF))
    return norm(out)


def diff(x, y):
    return inter(x, compl(y))


# ---------------------------------------------------------------- expression trees
class Atom:
    def __init__(self, lo, hi):
        self.lo, self.hi = lo, hi

    def text(self):
        s = lambda v: 'MIN' if v == -INF else 'MAX' if v == INF else str(int(v))
        return s(self.lo) if self.lo == self.hi else '%s..%s' % (s(self.lo), s(self.hi))

    def true_set(self):
        return ((self.lo, self.hi),)

    def visible(self):       # (root set or None = not visible, extensible)
        return self.true_set(), False


class ExtAtom(Atom):
    """a parent constraint lo..hi,... : when a further constraint is serially applied, the parent's extension marker is dropped
    (X.680 46.8 / 50.x: extensibility comes from the last constraint only), so the reference treats it like Atom."""
    def text(self):
        return Atom.text(self) + ',...'


class Bin:
    def __init__(self, op, a, b):
        self.op, self.a, self.b = op, a, b

    def text(self):
        wrap = lambda t: '(%s)' % t.text() if isinstance(t, (Bin, AllExcept)) else t.text()
        return '%s %s %s' % (wrap(self.a), self.op, wrap(self.b))

    def true_set(self):
        f = {'|': union, '^': inter, 'EXCEPT': diff}[self.op]
        return f(self.a.true_set(), self.b.true_set())

    def visible(self):
        (ra, ea), (rb, eb) = self.a.visible(), self.b.visible()
        if self.op == 'EXCEPT':
            return ra, ea                      # X.691 10.3.x: EXCEPT and what follows is ignored
        if self.op == '|':
            if ra is None or rb is None:
                return None, False             # a union with an invisible part is invisible
            return union(ra, rb), ea or eb
        if ra is None:
            return rb, eb
        if rb is None:
            return ra, ea
        return inter(ra, rb), ea or eb


class AllExcept:
    def __init__(self, a):
        self.a = a

    def text(self):
        return 'ALL EXCEPT ' + self.a.text()

    def true_set(self):
        return compl(self.a.true_set())

    def visible(self):
        return None, False


UNIVERSE = [0, 1, 2, 3]


def atoms(big=False):
    vals = UNIVERSE if not big else [-(1 << 63), -(1 << 32), -(1 << 31), 0, (1 << 31) - 1, (1 << 32) - 1, (1 << 32), (1 << 63) - 1]
    out = [Atom(v, v) for v in vals]
    out += [Atom(a, b) for a, b in itertools.combinations(vals, 2)]
    out += [Atom(-INF, v) for v in vals] + [Atom(v, INF) for v in vals] + [Atom(-INF, INF)]
    return out


def trees(depth, big=False):
    A = atoms(big)
    if big:
        A = A[:40]
    level = list(A)
    allt = list(A)
    for d in range(depth):
        nxt = []
        src = level if d == 0 else level[::7]        # depth 2 combines a thinned layer with atoms (still a complete, fixed enumeration)
        for a, b in itertools.product(src, A):
            for op in ('|', '^', 'EXCEPT'):
                nxt.append(Bin(op, a, b))
        nxt += [AllExcept(a) for a in A] if d == 0 else []
        allt += nxt
        level = nxt
    return allt


def bounds(s):
    if s is None:
        return None
    if not s:
        return 'empty'
    return (s[0][0], s[-1][1])


def reference(kind, tree, ext, adds, parent=None):
    """effective PER and OER constraint: returns dict(per=(lb,ub,ext)|None(unconstrained)|'illegal', oer=...)"""
    true = tree.true_set()
    if not true:
        return 'illegal'

    def has_empty_sub(t):
        if isinstance(t, Bin):
            return not t.true_set() or has_empty_sub(t.a) or has_empty_sub(t.b)
        return False
    if has_empty_sub(tree):
        return 'illegal'        # an operand that denotes no value at all: at the edge of legality, no verdict asserted
    root, e = tree.visible()
    if ext:
        e = True
    if parent is not None:
        ptrue = parent.true_set()
        if isinstance(parent, Atom):
            if not inter(true, ptrue) or inter(true, ptrue) != true:
                return 'illegal'           # the serially applied constraint must stay inside the parent
        else:
            # two-piece parent: X.680 only asks that the end points of the applied ranges are values of the parent; the result is
            # the intersection. Verdicts are asserted for single-range children whose finite end points lie in the parent.
            if not isinstance(tree, Atom) or not inter(true, ptrue):
                return 'illegal'
            lo, hi = bounds(true)
            if (lo != -INF and not inter([(lo, lo)], ptrue)) or (hi != INF and not inter([(hi, hi)], ptrue)):
                return 'illegal'
        proot, _ = parent.visible()
        if root is None:
            root = proot
        elif proot is not None:
            root = inter(root, proot)
    if root is not None and not root:
        return 'illegal'
    if root is None and e:
        return 'illegal'        # extension marker behind a root that is not PER-visible: the standards are not explicit, no verdict asserted
    per = None if root is None or bounds(root) == (-INF, INF) and not e else (bounds(root)[0], bounds(root)[1], e)
    if root is None or e:
        oer = None
    else:
        oer = None if bounds(root) == (-INF, INF) else (bounds(root)[0], bounds(root)[1], False)
    return dict(per=per, oer=oer)


def parse_printed(line):
    """'(0..3 | 7,...)' -> (lb, ub, ext) or None for (MIN..MAX) without extension"""
    rest = line.split('):', 1)[1].strip() if '):' in line else line.strip()
    m = re.match(r'^\((.*)\)$', rest)
    if not m:
        return 'unparsed'
    body = m.group(1)
    if body.startswith('SIZE(') and body.endswith(')'):
        body = body[5:-1]
    ext = False
    if ',...' in body.replace(' ', ''):
        ext = True
        body = body.replace(' ', '').split(',...')[0]
    parts = [p.strip() for p in body.split('|')]

    def val(x):
        x = x.strip()
        return -INF if x == 'MIN' else INF if x == 'MAX' else int(x)
    lo, hi = INF, -INF
    for p in parts:
        if not p:
            continue
        if '..' in p:
            a, b = p.split('..')
            lo, hi = min(lo, val(a)), max(hi, val(b))
        else:
            lo, hi = min(lo, val(p)), max(hi, val(p))
    if (lo, hi) == (-INF, INF) and not ext:
        return None
    return (lo, hi, ext)


def run(args):
    chk = common.Check('C09', 'exploration', args.tier)
    exe = build.asn1c()
    work = os.path.join(build.BUILD, 'c09-%d' % os.getpid())
    shutil.rmtree(work, ignore_errors=True)
    os.makedirs(work)
    depth = 1 if args.tier == 'quick' else 2
    cases = []   # (name, asn1 type text, reference, features, kind)
    n = 0
    for big in (False, True):
        for t in trees(depth if not big else 1, big):
            forms = [('plain', False, None, None)]
            if not big:
                forms += [('ext', True, None, None), ('ext_add', True, Atom(5, 5), None), ('serial', False, None, Atom(0, 3)), ('serial_wide', False, None, Atom(-INF, INF)),
                          # extensible parent: serial application drops the parent's marker (seed C09c)
                          ('serial_extparent', False, None, ExtAtom(0, 3)), ('serial_extparent_wide', False, None, ExtAtom(0, 10)),
                          # parents made of two pieces with a gap: the applied constraint may straddle the gap and cut both pieces
                          ('serial_gap1', False, None, Bin('|', Atom(0, 1), Atom(3, INF))), ('serial_gap2', False, None, Bin('|', Atom(-INF, 0), Atom(2, 3)))]
            for fname, ext, add, parent in forms:
                for kind in (('INTEGER', 'SIZE') if not big else ('INTEGER',)):
                    if kind == 'SIZE' and any(x in t.text() for x in ('MIN', '-')):
                        continue
                    ref = reference(kind, t, ext, add, parent)
                    if ref == 'illegal':
                        continue
                    body = t.text() + (',...' if ext else '') + ((',' + add.text()) if add else '')
                    if kind == 'INTEGER':
                        ty = 'INTEGER (%s)' % body if parent is None else 'INTEGER (%s) (%s)' % (parent.text(), body)
                    else:
                        ty = 'OCTET STRING (SIZE(%s))' % body if parent is None else 'OCTET STRING (SIZE(%s)) (SIZE(%s))' % (parent.text(), body)
                        if ref['per'] is not None:
                            lb = max(ref['per'][0], 0)
                            ref = dict(per=(lb, ref['per'][1], ref['per'][2]), oer=None if ref['oer'] is None else (max(ref['oer'][0], 0), ref['oer'][1], False))
                            if ref['per'] == (0, INF, False):
                                ref['per'] = None
                            if ref['oer'] == (0, INF, False):
                                ref['oer'] = None
                    feats = [fname, 'op:' + (t.op if isinstance(t, Bin) else 'allexcept' if isinstance(t, AllExcept) else 'atom')] + (['big'] if big else [])
                    cases.append(('T%d' % n, ty, ref, feats, kind))
                    n += 1
    stats = collections.Counter()
    samples = []
    distinct = set()
    CH = 400

    def one(i):
        chunk = cases[i:i + CH]
        p = os.path.join(work, 'c%d.asn1' % i)
        with open(p, 'w') as f:
            f.write('M%d DEFINITIONS ::= BEGIN\n' % i + ''.join('%s ::= %s\n' % (c[0], c[1]) for c in chunk) + 'END\n')
        r = subprocess.run([exe, '-S', os.path.join(build.REPO, 'skeletons'), '-E', '-F', '-print-constraints', p], stdout=subprocess.PIPE, stderr=subprocess.PIPE, timeout=300)
        out = r.stdout.decode(errors='replace')
        res = {}
        cur = None
        for line in out.split('\n'):
            m = re.match(r'^(T\d+) ::= ', line)
            if m:
                cur = m.group(1)
                res[cur] = {}
            elif cur and line.startswith('-- PER-visible constraints'):
                res[cur]['per'] = parse_printed(line)
            elif cur and line.startswith('-- OER-visible constraints'):
                res[cur]['oer'] = parse_printed(line)
        os.unlink(p)
        if r.returncode != 0 and not res:
            # one bad type kills the chunk: fall back to single-type modules
            for c in chunk:
                with open(p, 'w') as f:
                    f.write('M DEFINITIONS ::= BEGIN\n%s ::= %s\nEND\n' % (c[0], c[1]))
                r1 = subprocess.run([exe, '-S', os.path.join(build.REPO, 'skeletons'), '-E', '-F', '-print-constraints', p], stdout=subprocess.PIPE, stderr=subprocess.PIPE, timeout=60)
                o1 = r1.stdout.decode(errors='replace')
                d = {}
                for line in o1.split('\n'):
                    if line.startswith('-- PER-visible constraints'):
                        d['per'] = parse_printed(line)
                    elif line.startswith('-- OER-visible constraints'):
                        d['oer'] = parse_printed(line)
                res[c[0]] = d if r1.returncode == 0 else {'rejected': r1.stderr.decode(errors='replace')[-200:], 'rc': r1.returncode}
        return res
    with ThreadPoolExecutor(build.JOBS) as ex:
        results = list(ex.map(one, range(0, len(cases), CH)))
    merged = {}
    for r in results:
        merged.update(r)
    for name, ty, ref, feats, kind in cases:
        got = merged.get(name)
        stats['evaluations'] += 1

        def viol(k, what, detail):
            chk.violation(dict(kind=k, visible=what, features=feats, constrained_kind=kind), dict(module='M DEFINITIONS ::= BEGIN\nT ::= %s\nEND\n' % ty, asn1c_mode='-E', asn1c_opts=['-F', '-print-constraints'], detail=detail))
        if got is None:
            viol('no_output', 'any', 'type missing from asn1c output')
            continue
        if 'rejected' in got:
            if got['rc'] < 0:
                viol('asn1c_killed_by_signal', 'any', got['rejected'])
            else:
                stats['rejected_by_asn1c'] += 1      # legality of exotic forms is not asserted here
            continue
        distinct.add((str(ref), kind))
        for what in ('per', 'oer'):
            if what not in got:
                viol('line_missing', what, 'no %s-visible line' % what.upper())
                continue
            exp = ref[what]
            g = got[what]
            if kind == 'SIZE' and g == (0, INF, False):
                g = None               # SIZE(0..MAX) is the unconstrained size
            if g != exp:
                viol('effective_constraint_differs', what, 'type: %s | expected %s | printed %s' % (ty, exp, got[what]))
        if len(samples) < 4 and stats['evaluations'] % 911 == 1:
            samples.append(dict(type=ty, expected=str(ref), printed=str(got)))
    shutil.rmtree(work, ignore_errors=True)
    cov = dict(evaluations=stats['evaluations'], distinct_nontrivial=len(distinct), programs=stats['evaluations'],
               rule='every constraint expression tree with <= %d binary operators from {|, ^, EXCEPT} plus ALL EXCEPT over the 19 atoms of the universe {MIN,0,1,2,3,MAX} (single values, '
                    'ranges, MIN..v, v..MAX, MIN..MAX), each plain, extensible, extensible with an addition, serially applied to parent (0..3) and to (MIN..MAX), as INTEGER value constraint '
                    'and inside SIZE() of OCTET STRING; plus all depth-1 trees over 64-bit boundary atoms (+-2^31, +-2^32, +-2^63). Trees with an empty denotation or leaving their parent '
                    'are illegal ASN.1 and excluded. Oracle: (lower bound, upper bound, extensible) of the PER-visible and OER-visible lines of asn1c -E -F -print-constraints equal the '
                    'reference (brute-force interval-set semantics; X.691 10.3: EXCEPT ignored, ALL EXCEPT invisible, union needs all parts visible, intersection drops invisible parts, '
                    'serial = intersection with extensibility from the last; X.696: extensible => not visible). non-trivial = distinct (denotation, kind) classes' % depth,
               samples=samples, stats=dict(stats), trusted_base=['interval-set reference in checks/c09.py'])
    return chk.finish(cov)
