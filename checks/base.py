"""Generic sweep skeleton: build corpus -> per-batch worker in forked processes -> merge."""
import os, shutil, collections
from tools import build, common, corpus
from gen import typegen, features
from ref import asn1ast as A


def families_for(tier, arg, quick=('S0', 'S1', 'S2', 'S4', 'S5', 'S6'), thorough=('S0', 'S1', 'S2', 'S3', 'S4', 'S5', 'S6')):
    if arg:
        return arg.split(',')
    return list(quick if tier == 'quick' else thorough)


class Out:
    """what a worker returns for one batch"""
    def __init__(self):
        self.viol = []          # (sig, replay)
        self.stats = collections.Counter()
        self.distinct = set()
        self.samples = []
        self.extra_sig = {}

    def v(self, batch, case, kind, syntax, detail, value=None, cmd=None, observed=None, feats=None, extra=None):
        sig = dict(kind=kind, syntax=syntax, family=case.family, label=case.label, features=feats or [])
        sig.update(self.extra_sig)
        if kind == 'crash':
            ck, cf = common.crash_sig(detail or '')
            sig['crash_kind'], sig['crash_site'] = ck, cf
        rep = dict(module=batch.text, type=case.name, value=repr(value)[:2000], cmd=cmd, observed=(observed or '')[:3000], detail=detail)
        if extra:
            rep.update(extra)
        self.viol.append((sig, rep))
        self.stats['viol:' + kind] += 1


def run_sweep(chk, args, worker, cases=None, fams=None, flavour='asan', opts=(), defines=(), per_module=40, workname=None, procs=None, shape_tier=None):
    tier = shape_tier or args.tier
    if cases is None:
        cases = typegen.cases(tier, fams)
    work = os.path.join(build.BUILD, workname or ('sw-%s-%d' % (chk.prop, os.getpid())))
    batches, failures = corpus.build_corpus(cases, work, flavour=flavour, opts=opts, defines=defines, per_module=per_module)
    stats = collections.Counter()
    distinct = set()
    samples = []
    # a type that asn1c rejects or whose C does not compile is C10's subject; here it only shrinks the corpus.
    # If that happens to more than 5% of the types something else is wrong and the sweep would be vacuous.
    for c, err, text in failures:
        stats['types_not_built'] += 1
    if len(failures) > max(3, len(cases) // 20):
        c, err, text = failures[0]
        chk.violation(dict(kind='corpus_not_built', syntax=None, family=c.family, label=c.label, features=[]),
                      dict(module=text, error=err, count=len(failures), note='more than 5% of the corpus types could not be built'))
    outs = corpus.map_batches(worker, batches, procs)
    for o in outs:
        stats.update(o.stats)
        distinct |= o.distinct
        for s in o.samples:
            if len(samples) < 8:
                samples.append(s)
        for sig, rep in o.viol:
            chk.violation(sig, rep)
    stats['types'] = sum(len(b.cases) for b in batches)
    if not getattr(args, 'keep', False):
        shutil.rmtree(work, ignore_errors=True)
    return stats, distinct, samples
