"""C03: decoders accept every valid encoding of a value (reference-generated variants), not only asn1c's own."""
import collections
from tools import common, corpus
from checks import base
from gen import features, xervar
from ref import asn1ast as A, ber, uper, oer


def make_worker(k, xml=True):
    def worker(b):
        o = base.Out()
        items = []   # (case, value, der, syntax, label, bytes, feats)
        xer_src = []
        for c in b.cases:
            if c.family == 'S6' and c.label.startswith('long/'):
                continue
            t = b.mod.types[c.name]
            for v, d in corpus.case_values(b, c):
                fe = features.features(b.mod, t, v)
                for syn, fn in (('ber', lambda ch: ber.encode_policy(b.mod, t, v, ch)), ('uper', lambda ch: uper.encode(b.mod, t, v, ch)),
                                ('oer', lambda ch: oer.encode(b.mod, t, v, ch))):
                    if syn != 'ber' and ('has_SET' in fe or ('k:ObjectDescriptor' in fe and syn == 'oer')):
                        o.stats['no_codec_for_type:' + syn] += 1     # no valid UPER/OER encoding exists for the library to accept
                        continue
                    try:
                        vs = ber.variants(fn, k, cap=300)
                    except Exception as e:
                        o.stats['ref_undefined:' + syn] += 1
                        continue
                    seen = set()
                    for enc, ch in vs:
                        if enc in seen:
                            continue
                        seen.add(enc)
                        lab = '+'.join(l for _, l, _ in ch.deviations()) or 'canonical'
                        items.append((c, v, d, syn, lab, enc, sorted(fe | ch.features)))
                if xml and 'k:REAL' not in fe:
                    xer_src.append((c, v, d, fe))
        # XER variants are XML-level transformations of asn1c's own CANONICAL-XER (validated by C01)
        if xer_src:
            res = common.run_driver(b.exe, ['enc %s cxer %s' % (c.name, d.hex()) for c, v, d, fe in xer_src], watchdog=20)
            for (c, v, d, fe), r in zip(xer_src, res):
                if r.crash is not None or ' out=' not in (r.line or '') or ' out=E' in r.line:
                    o.stats['cxer_unavailable'] += 1
                    continue
                hx = r.line.split(' out=')[1].strip()
                txt = (b'' if hx == '-' else bytes.fromhex(hx)).decode('utf-8', errors='surrogateescape')
                t = b.mod.types[c.name]
                try:
                    vs = xervar.variants(b.mod, t, v, txt) + xervar.default_dropped(b.mod, t, v, txt)
                except Exception as e:
                    o.stats['xer_variant_generator_skipped'] += 1
                    continue
                seen = set()
                for lab, x in vs:
                    if x in seen:
                        continue
                    seen.add(x)
                    items.append((c, v, d, 'xer', lab, x.encode('utf-8', errors='surrogateescape'), sorted(fe | {'xv:' + lab})))
        lines = ['dec %s %s %s' % (c.name, syn, enc.hex() or '-') for c, v, d, syn, lab, enc, fe in items]
        res = common.run_driver(b.exe, lines, watchdog=20)
        for (c, v, d, syn, lab, enc, fe), r, line in zip(items, res, lines):
            o.stats['evaluations'] += 1
            o.stats['variants:' + syn] += 1
            if lab != 'canonical':
                o.distinct.add((c.label, syn, enc))

            def viol(kind, detail):
                o.v(b, c, kind, syn, detail, value=v, cmd=line[:6000], observed=(r.line or r.crash or ''), feats=fe,
                    extra=dict(variant=lab, ref_der=d.hex()[:2000]))
                o.viol[-1][0]['variant'] = lab
            if r.crash is not None:
                viol('crash', r.crash[-1500:])
                continue
            kv, _ = common.parse_kv(r.line)
            cons = kv.get('consumed', '0/0').split('/')
            if kv.get('rc') != '0':
                viol('valid_encoding_rejected', 'rc=%s consumed=%s' % (kv.get('rc'), kv.get('consumed')))
            elif cons[0] != cons[1]:
                viol('not_fully_consumed', 'consumed=%s' % kv.get('consumed'))
            elif kv.get('der') != (d.hex() or '-'):
                viol('decoded_value_differs', 'der=%s expected=%s' % (kv.get('der', '')[:300], d.hex()[:300]))
            elif kv.get('leak') != '0' or kv.get('badfree') != '0':
                viol('leak', 'leak=%s badfree=%s' % (kv.get('leak'), kv.get('badfree')))
            if len(o.samples) < 2 and lab != 'canonical' and o.stats['evaluations'] % 211 == 1:
                o.samples.append(dict(type=A.type_text(b.mod, b.mod.types[c.name], 0)[:200], value=repr(v)[:120], syntax=syn, variant=lab,
                                      encoding=enc.hex()[:160]))
        return o
    return worker


def run(args):
    chk = common.Check('C03', 'exploration', args.tier)
    k = 1 if args.tier == 'quick' else 2
    fams = base.families_for(args.tier, args.families, quick=('S0', 'S1', 'S2', 'S4', 'S5'), thorough=('S0', 'S1', 'S2', 'S3', 'S4', 'S5', 'S6'))
    # deviation bound 2 over the quick shape corpus; the additional thorough-only shapes (all S1 roles x tagging modes, S3, S6) get bound 1
    stats, distinct, samples = base.run_sweep(chk, args, make_worker(k), fams=[f for f in fams if f != 'S6'] if args.tier != 'quick' else fams, shape_tier='quick')
    if args.tier != 'quick':
        from gen import typegen
        extra = [c for c in typegen.cases('thorough', ['S1', 'S3', 'S6'])]
        st2, d2, s2 = base.run_sweep(chk, args, make_worker(1, xml=False), cases=extra, workname='sw-C03b-%d' % __import__('os').getpid())
        for kk, vv in st2.items():
            stats['extra:' + kk] = vv
        stats['evaluations'] += st2['evaluations']
        distinct |= d2
    cov = dict(evaluations=stats['evaluations'], distinct_nontrivial=len(distinct),
               rule='for every (type,value) of families %s: all encodings with <= %d non-canonical choices produced by the reference encoders '
                    '(BER: length forms per TLV / per tag chain / for the whole encoding, constructed strings, SET order, DEFAULT present, TRUE octet, unknown extensions; UPER/OER: BASIC freedoms, '
                    'unknown extensions) plus XML-level XER variants (white-space, comments, empty-element forms, SET order, DEFAULT absent, unknown '
                    'extension elements); non-trivial = encoding differs from the canonical one' % (','.join(fams), k),
               samples=samples, stats=dict(stats), deviation_bound_completed=k,
               trusted_base=['ref/ber.py, ref/uper.py, ref/oer.py variant enumerators', 'gen/xervar.py (XML-level, applied to asn1c CANONICAL-XER validated by C01)', 'ASan/UBSan'])
    return chk.finish(cov)
