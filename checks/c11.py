"""C11: ambiguous or inconsistent specifications are rejected, unambiguous ones accepted.
Every 2-member (thorough: selected 3-member) CHOICE / SET / SEQUENCE over a member-type x tag x marker x module-default
alphabet, plus the single-fault catalogue (duplicate identifier, duplicate enumeration name/value, dangling
reference), is compiled with `asn1c -P`; the verdict must equal ref.tags.legal (X.680 distinct-tag rules)."""
import os, subprocess, itertools, shutil, collections
from collections import OrderedDict
from concurrent.futures import ThreadPoolExecutor
from tools import build, common
from ref.asn1ast import *
from ref import tags as T

MTYPES = ['INTEGER', 'BOOLEAN', 'RI', 'CH', 'RC', 'CC']
TAGS = [None, (2, 0, None), (2, 1, None), (2, 0, 'EXPLICIT'), (2, 0, 'IMPLICIT'), (1, 0, None)]
MARKERS = ['mandatory', 'OPTIONAL', 'DEFAULT']


def mk_type(kind):
    if kind == 'INTEGER':
        return Type('INTEGER')
    if kind == 'BOOLEAN':
        return Type('BOOLEAN')
    if kind == 'RI':
        return Type('REF', ref='RI')
    if kind == 'CH':
        return Type('CHOICE', root=[Member('ca', Type('INTEGER')), Member('cb', Type('NULL'))])
    if kind == 'RC':
        return Type('REF', ref='RC')
    if kind == 'CC':
        return Type('CHOICE', root=[Member('cx', Type('CHOICE', root=[Member('cy', Type('BOOLEAN')), Member('cz', Type('NULL'))])), Member('cw', Type('REAL'))])


def mk_module(container, default, members, nest=None):
    """members: list of (kind, tag, marker); nest: the container is an inline member ('member') or the element of a
    SEQUENCE OF ('seqof') of an outer type without manual tags instead of being the named type itself"""
    ms = []
    for i, (kind, tag, marker) in enumerate(members):
        t = mk_type(kind)
        t.tag = tag
        m = Member('m%d' % i, t, optional=(marker == 'OPTIONAL'))
        if marker == 'DEFAULT':
            m.has_default = True
            m.default = 5 if kind in ('INTEGER', 'RI') else True
        ms.append(m)
    types = OrderedDict()
    if container == 'SEQUENCE':
        ms.append(Member('last', Type('OCTET STRING')))
    types['T'] = Type(container, root=ms)
    if nest == 'member':
        types['T'] = Type('SEQUENCE', root=[Member('id', Type('INTEGER')), Member('body', types['T'])])
    elif nest == 'seqof':
        types['T'] = Type('SEQUENCE OF', elem=types['T'])
    types['RI'] = Type('INTEGER')
    types['RC'] = Type('CHOICE', root=[Member('ra', Type('INTEGER')), Member('rb', Type('NULL'))])
    return Module('M', default, types)


def enumerate_modules(tier):
    out = []
    for container in ('CHOICE', 'SET', 'SEQUENCE'):
        for default in ('EXPLICIT', 'IMPLICIT', 'AUTOMATIC'):
            markers = ['mandatory'] if container == 'CHOICE' else MARKERS
            combos = [(k, tg, mk) for k in MTYPES for tg in TAGS for mk in markers]
            for a, b in itertools.product(combos, combos):
                ok = True
                for k, tg, mk in (a, b):
                    if mk == 'DEFAULT' and k not in ('INTEGER', 'BOOLEAN', 'RI'):
                        ok = False
                    # "[n] IMPLICIT <untagged CHOICE>" is itself illegal notation (X.680 31.2.7): no verdict is asserted, leave it out
                    if tg is not None and tg[2] == 'IMPLICIT' and k in ('CH', 'RC', 'CC'):
                        ok = False
                if ok:
                    out.append((container, default, [a, b]))
    # the same containers one level down (inline member / SEQUENCE OF element of an outer type that has no manual tags):
    # each inline type takes its own automatic-tagging decision and must be checked in its own right
    nested = []
    red = ('INTEGER', 'BOOLEAN', 'CH')
    for container, default, members in out:
        if tier == 'quick' and (default != 'AUTOMATIC' or any(k not in red for k, _, _ in members)):
            continue
        nested.append((container, default, members, 'member'))
        if tier != 'quick':
            nested.append((container, default, members, 'seqof'))
    out = [o + (None,) for o in out] + nested
    if tier != 'quick':
        # width 3 for the SEQUENCE optional-run rule and for CHOICE, over a reduced alphabet
        small = [(k, tg, mk) for k in ('INTEGER', 'BOOLEAN', 'CH') for tg in (None, (2, 0, None), (2, 1, None)) for mk in ('mandatory', 'OPTIONAL')]
        for default in ('EXPLICIT', 'AUTOMATIC'):
            for a, b, c in itertools.product(small, small, small):
                out.append(('SEQUENCE', default, [a, b, c], None))
            for a, b, c in itertools.product([s for s in small if s[2] == 'mandatory'], repeat=3):
                out.append(('CHOICE', default, [a, b, c], None))
    return out


FAULTS = [
    ('dup_identifier_seq', 'M DEFINITIONS AUTOMATIC TAGS ::= BEGIN\nT ::= SEQUENCE { a INTEGER, b BOOLEAN, a NULL }\nEND\n', False),
    ('dup_identifier_set', 'M DEFINITIONS AUTOMATIC TAGS ::= BEGIN\nT ::= SET { a INTEGER, a BOOLEAN }\nEND\n', False),
    ('dup_identifier_choice', 'M DEFINITIONS AUTOMATIC TAGS ::= BEGIN\nT ::= CHOICE { a INTEGER, b BOOLEAN, b NULL }\nEND\n', False),
    ('dup_identifier_nested', 'M DEFINITIONS AUTOMATIC TAGS ::= BEGIN\nT ::= SEQUENCE { x SEQUENCE { a INTEGER, a BOOLEAN }, y NULL }\nEND\n', False),
    ('dup_enum_name', 'M DEFINITIONS ::= BEGIN\nT ::= ENUMERATED { a(0), b(1), a(2) }\nEND\n', False),
    ('dup_enum_value', 'M DEFINITIONS ::= BEGIN\nT ::= ENUMERATED { a(0), b(1), c(1) }\nEND\n', False),
    ('dup_enum_value_implicit', 'M DEFINITIONS ::= BEGIN\nT ::= ENUMERATED { a, b(0) }\nEND\n', False),
    ('dup_enum_name_ext', 'M DEFINITIONS ::= BEGIN\nT ::= ENUMERATED { a(0), ..., a(1) }\nEND\n', False),
    ('dangling_ref_member', 'M DEFINITIONS ::= BEGIN\nT ::= SEQUENCE { a Undefined }\nEND\n', False),
    ('dangling_ref_top', 'M DEFINITIONS ::= BEGIN\nT ::= Undefined\nEND\n', False),
    ('dangling_ref_seqof', 'M DEFINITIONS ::= BEGIN\nT ::= SEQUENCE OF Undefined\nEND\n', False),
    ('dangling_ref_choice', 'M DEFINITIONS ::= BEGIN\nT ::= CHOICE { a INTEGER, b Undefined }\nEND\n', False),
    ('dup_type_name', 'M DEFINITIONS ::= BEGIN\nT ::= INTEGER\nT ::= BOOLEAN\nEND\n', False),
    ('ok_same_names_different_scopes', 'M DEFINITIONS AUTOMATIC TAGS ::= BEGIN\nT ::= SEQUENCE { a SEQUENCE { a INTEGER }, b CHOICE { a NULL, b BOOLEAN } }\nEND\n', True),
    ('ok_enum', 'M DEFINITIONS ::= BEGIN\nT ::= ENUMERATED { a(0), b(1), ..., c(2) }\nEND\n', True),
    ('ok_forward_ref', 'M DEFINITIONS ::= BEGIN\nT ::= SEQUENCE { a Later }\nLater ::= INTEGER\nEND\n', True),
]


def run(args):
    chk = common.Check('C11', 'exploration', args.tier)
    exe = build.asn1c()
    work = os.path.join(build.BUILD, 'c11-%d' % os.getpid())
    shutil.rmtree(work, ignore_errors=True)
    os.makedirs(work)
    mods = enumerate_modules(args.tier)
    stats = collections.Counter()
    distinct = set()
    samples = []

    def one(i_item):
        i, (text, expect_ok, label) = i_item
        p = os.path.join(work, 'm%d.asn1' % i)
        with open(p, 'w') as f:
            f.write(text)
        r = subprocess.run([exe, '-S', os.path.join(build.REPO, 'skeletons'), '-P', p], stdout=subprocess.DEVNULL, stderr=subprocess.PIPE, timeout=60)
        wrote = None
        if r.returncode != 0:
            d = os.path.join(work, 'd%d' % i)
            os.makedirs(d)
            subprocess.run([exe, '-S', os.path.join(build.REPO, 'skeletons'), '-no-gen-example', '-D', d, p], stdout=subprocess.DEVNULL, stderr=subprocess.DEVNULL, timeout=60)
            wrote = len(os.listdir(d))
            shutil.rmtree(d, ignore_errors=True)
        os.unlink(p)
        return r.returncode, r.stderr.decode(errors='replace')[-600:], wrote

    items = []
    for container, default, members, nest in mods:
        mod = mk_module(container, default, members, nest)
        try:
            legal = T.legal(mod)
        except Exception:
            stats['ref_undefined'] += 1
            continue
        label = '%s%s/%s/%s' % (container, ('@' + nest) if nest else '', default, ';'.join('%s,%s,%s' % (k, 'none' if tg is None else '%d.%d.%s' % tg, mk) for k, tg, mk in members))
        items.append((module_text(mod), legal, label))
    for name, text, ok in FAULTS:
        items.append((text, ok, 'fault:' + name))
    from gen import faults
    for name, text, ok in faults.fault_modules(args.tier):
        items.append((text, ok, 'fault:' + name))
    with ThreadPoolExecutor(build.JOBS) as ex:
        results = list(ex.map(one, list(enumerate(items))))
    for (text, expect_ok, label), (rc, err, wrote) in zip(items, results):
        stats['evaluations'] += 1
        stats['expect_accept' if expect_ok else 'expect_reject'] += 1
        if not expect_ok or label.startswith('fault:'):
            distinct.add(label)
        cls = label.split('/')[0] if not label.startswith('fault:') else label

        def viol(kind, detail):
            chk.violation(dict(kind=kind, container=cls, label=label, module_default=(label.split('/')[1] if '/' in label else '')),
                          dict(module=text, asn1c_mode='-P', detail=detail, stderr=err))
        if rc < 0:
            viol('asn1c_killed_by_signal', 'signal %d' % -rc)
        elif expect_ok and rc != 0:
            viol('unambiguous_module_rejected', 'exit=%d' % rc)
        elif not expect_ok and rc == 0:
            viol('ambiguous_module_accepted', 'exit=0')
        elif not expect_ok:
            if not err.strip():
                viol('rejected_without_diagnostic', 'exit=%d, empty stderr' % rc)
            if wrote:
                viol('rejected_but_files_written', '%d files in -D directory' % wrote)
        if len(samples) < 4 and not expect_ok and stats['evaluations'] % 9973 == 1:
            samples.append(dict(label=label, module=text[:300], asn1c_exit=rc, stderr=err[:120]))
    if not samples:
        samples.append(dict(label=items[0][2], module=items[0][0][:300]))
    shutil.rmtree(work, ignore_errors=True)
    cov = dict(evaluations=stats['evaluations'], distinct_nontrivial=len(distinct), programs=stats['evaluations'],
               rule='every CHOICE / SET / SEQUENCE with two members (thorough: plus three-member SEQUENCE and CHOICE over a reduced alphabet) whose members range over '
                    'type {INTEGER, BOOLEAN, ref->INTEGER, inline untagged CHOICE, ref->CHOICE, CHOICE-in-CHOICE} x tag {none,[0],[1],[0] EXPLICIT,[0] IMPLICIT,[APPLICATION 0]} x '
                    'marker {mandatory, OPTIONAL, DEFAULT} x module default {EXPLICIT, IMPLICIT, AUTOMATIC}, also one level down as inline member / SEQUENCE OF element of an outer type without manual tags (quick: AUTOMATIC default, reduced member alphabet), plus the single-fault catalogue, enumerated by gen/faults.py: for SEQUENCE/SET/CHOICE every layout of 1-3 root components, extension marker, 0-2 additions and second root x every pair of positions given the same identifier x a dangling reference at every position, the same inside nested and SEQUENCE OF scopes, ENUMERATED names and values at every pair of positions over root/extension, named numbers/bits, duplicate type name; every layout also unmodified as an accepted control. Oracle: asn1c -P exits 0 <=> ref.tags.legal (X.680 25.6, 27.3, 29.3 looking through untagged CHOICEs and references, '
                    'after automatic tagging); a rejection carries a diagnostic and a -D run writes no file; never a signal. non-trivial = modules expected to be rejected',
               samples=samples, stats=dict(stats), trusted_base=['ref/tags.py distinct-tag rules'])
    return chk.finish(cov)
