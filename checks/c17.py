"""C17: OBJECT IDENTIFIER and time helper APIs round-trip and match X.690 (drv/prim.c, groups oid and time)."""
from checks import c16

RULE = ('drv/prim.c, enumerated (never sampled). oid_vectors: arc vectors with first in {0,1,2,3}, second in {0,1,38,39,40} (first = 2: also 47,48,127,128, '
        '2^32-81, 2^32-80, 2^32-1), further arcs over {0,1,127,128,16383,16384,2^21-1,2^21,2^28-1,2^28,2^32-1}, all lengths 2..4, plus vectors of '
        '5..64 arcs: OBJECT_IDENTIFIER_set_arcs stores the X.690 8.19 base-128 octets (or fails with ERANGE for a first pair that is illegal / not '
        'representable in a 32-bit first sub-identifier), OBJECT_IDENTIFIER_get_arcs of the reference octets returns the vector for output arrays of '
        '0, 1, 2, n-1, n, n+1 cells (exact-size heap arrays), OBJECT_IDENTIFIER_parse_arcs of the dotted text (NUL-terminated and length-delimited) '
        'returns the vector and the end of the text; arcs above 2^32-1 in text are refused. oid_octets: every octet string of length 0..%(full)d over '
        'all octets and %(f1)d..%(lim)d over {00,01,7F,80,81,FF}: get_arcs returns exactly the arcs of a 64-bit reference parse, fails for an '
        'unterminated sub-identifier and for a sub-identifier above 2^32-1 (never wraps); leading 0x80 octets are recorded only. '
        'time_gt / time_ut: years {1, 1582, 1900..2200, 9999} (GeneralizedTime) and 1950..2049 (UTCTime) x {Jan 1, Feb 28, Feb 29 or Mar 1, Dec 31} x '
        '{00:00:00, 12:34:56, 23:59:59} plus the seconds T-1, T, T+1 around every UTC-offset transition of the zone in those years, under TZ in '
        '{UTC, America/New_York, Europe/London, Asia/Kolkata, Australia/Lord_Howe, Pacific/Chatham, XYZ-3:30}: localtime_r(t) through asn_time2GT / '
        'asn_time2UT (force_gmt) equals YYYYMMDDHHMMSSZ / YYMMDDHHMMSSZ computed from t by an integer civil-from-days algorithm; asn_GT2time / '
        'asn_UT2time of the reference text returns t and the right struct tm (as_gmt 1 and 0); asn_time2GT_frac / asn_GT2time_frac with fraction '
        'digits 0..6 x {0, 1, 10^d-1, 10^(d-1), 5*10^(d-1), 120*10^(d-3), 1234567 mod 10^d}: DER fraction text (no trailing zeros) and the same '
        'rational back. non-trivial = distinct inputs (vector, octet string, zone x instant x fraction)')


def run(args):
    th = args.tier == 'thorough'
    rule = RULE % dict(full=3 if th else 2, f1=4 if th else 3, lim=8 if th else 5)
    plan = [('oid', 3 if th else 1), ('time', 1)]
    return c16.prim_check('C17', args, plan, rule,
                          ['drv/prim.c reference (base-128 codec, days-from-civil calendar)', 'glibc localtime_r + tzdata for the local broken-down time handed to the library',
                           'ASan/UBSan'])
