/* C06 / C07 helper: generic descriptor-driven walker and representation-changing transformations.
 *   xform TYPE HEX    : decode BER twice (S0, R); apply every single transformation to R (one at a time),
 *                       require DER/CXER/UPER/OER(R) == those of S0 and compare_struct(S0,R) == 0; undo.
 *   xform TYPE HEX c  : corruption mode for C07: mandatory pointer NULL, CHOICE selector 0 / count+1,
 *                       buf==NULL with size>0 -> every encoder must fail cleanly (-1, errno) or succeed
 */
#include "drv.h"
#include <stdarg.h>
#include <INTEGER.h>
#include <ENUMERATED.h>
#include <BIT_STRING.h>
#include <OCTET_STRING.h>
#include <constr_SEQUENCE.h>
#include <constr_SET.h>
#include <constr_CHOICE.h>
#include <constr_SET_OF.h>
#include <constr_SEQUENCE_OF.h>
#include <asn_SET_OF.h>

enum nkind { NK_SEQ, NK_SET, NK_CHOICE, NK_SETOF, NK_SEQOF, NK_INTEGER, NK_BITSTR, NK_OCTSTR, NK_OTHER };
NI static enum nkind kind_of(const asn_TYPE_descriptor_t *td) {
    const asn_TYPE_operation_t *op = td->op;
    if(op == &asn_OP_SEQUENCE) return NK_SEQ;
    if(op == &asn_OP_SET) return NK_SET;
    if(op == &asn_OP_CHOICE) return NK_CHOICE;
    if(op == &asn_OP_SET_OF) return NK_SETOF;
    if(op == &asn_OP_SEQUENCE_OF) return NK_SEQOF;
    if(op == &asn_OP_INTEGER || op == &asn_OP_ENUMERATED) return NK_INTEGER;
    if(op == &asn_OP_BIT_STRING) return NK_BITSTR;
    if(op->free_struct == OCTET_STRING_free) return NK_OCTSTR;
    return NK_OTHER;
}

struct node { const asn_TYPE_descriptor_t *td; void *ptr; const asn_TYPE_descriptor_t *parent; void *parent_ptr; int elm_index; };
static struct node nodes[4096]; static int nnodes;

NI static unsigned choice_present(const asn_TYPE_descriptor_t *td, const void *sptr) {
    const asn_CHOICE_specifics_t *sp = td->specifics;
    const char *p = (const char *)sptr + sp->pres_offset;
    switch(sp->pres_size) { case 1: return *(const unsigned char *)p; case 2: return *(const unsigned short *)p; default: return *(const unsigned *)p; }
}
NI static void choice_set_present(const asn_TYPE_descriptor_t *td, void *sptr, unsigned v) {
    const asn_CHOICE_specifics_t *sp = td->specifics;
    char *p = (char *)sptr + sp->pres_offset;
    switch(sp->pres_size) { case 1: *(unsigned char *)p = v; break; case 2: *(unsigned short *)p = v; break; default: *(unsigned *)p = v; }
}

NI static void walk(const asn_TYPE_descriptor_t *td, void *sptr, const asn_TYPE_descriptor_t *parent, void *pptr, int ei, int depth) {
    if(!sptr || nnodes >= 4096 || depth > 12) return;
    nodes[nnodes].td = td; nodes[nnodes].ptr = sptr; nodes[nnodes].parent = parent; nodes[nnodes].parent_ptr = pptr; nodes[nnodes].elm_index = ei; nnodes++;
    switch(kind_of(td)) {
    case NK_SEQ: case NK_SET:
        for(unsigned i = 0; i < td->elements_count; i++) {
            asn_TYPE_member_t *e = &td->elements[i];
            void *m = (e->flags & ATF_POINTER) ? *(void **)((char *)sptr + e->memb_offset) : (void *)((char *)sptr + e->memb_offset);
            walk(e->type, m, td, sptr, i, depth + 1);
        }
        break;
    case NK_CHOICE: {
        unsigned pr = choice_present(td, sptr);
        if(pr >= 1 && pr <= td->elements_count) {
            asn_TYPE_member_t *e = &td->elements[pr - 1];
            void *m = (e->flags & ATF_POINTER) ? *(void **)((char *)sptr + e->memb_offset) : (void *)((char *)sptr + e->memb_offset);
            walk(e->type, m, td, sptr, pr - 1, depth + 1);
        }
        break; }
    case NK_SETOF: case NK_SEQOF: {
        asn_anonymous_set_ *l = _A_SET_FROM_VOID(sptr);
        for(int i = 0; i < l->count; i++) walk(td->elements[0].type, l->array[i], td, sptr, i, depth + 1);
        break; }
    default: break;
    }
}

static enum asn_transfer_syntax CSYN[4] = { ATS_DER, ATS_CANONICAL_XER, ATS_UNALIGNED_CANONICAL_PER, ATS_CANONICAL_OER };
static const char *CSYNN[4] = { "der", "cxer", "uper", "oer" };
struct encs { unsigned char *b[4]; ssize_t n[4]; };
NI static void enc_all(asn_TYPE_descriptor_t *td, void *s, struct encs *E) {
    for(int i = 0; i < 4; i++) {
        if(pm_masked(CSYNN[i])) { E->b[i] = 0; E->n[i] = -1; continue; }
        asn_encode_to_new_buffer_result_t r = asn_encode_to_new_buffer(0, CSYN[i], td, s); E->b[i] = r.buffer; E->n[i] = r.buffer ? r.result.encoded : -1;
    }
}
NI static void enc_free(struct encs *E) { for(int i = 0; i < 4; i++) free(E->b[i]); }

struct xres { long transforms, viol; int nrec; char rec[8][200]; long kinds[8]; };
NI static void xviol(struct xres *R, const char *fmt, ...) {
    R->viol++; if(R->nrec >= 8) return;
    va_list ap; va_start(ap, fmt); vsnprintf(R->rec[R->nrec], 200, fmt, ap); va_end(ap);
    for(char *p = R->rec[R->nrec]; *p; p++) if(*p == ' ') *p = '_';   /* type names such as "BIT STRING" */
    R->nrec++;
}
NI static void check_same(asn_TYPE_descriptor_t *td, void *s0, void *r, struct encs *base, const char *what, int nodeidx, struct xres *R) {
    struct encs E; enc_all(td, r, &E);
    R->transforms++;
    for(int i = 0; i < 4; i++) {
        if(base->n[i] < 0) continue;   /* baseline not encodable in this syntax: nothing to compare */
        if(E.n[i] != base->n[i] || memcmp(E.b[i], base->b[i], base->n[i])) xviol(R, "%s@node%d(%s):%s_differs", what, nodeidx, nodes[nodeidx].td->name, CSYNN[i]);
    }
    if(td->op->compare_struct(td, s0, r) != 0 || td->op->compare_struct(td, r, s0) != 0) xviol(R, "%s@node%d(%s):compare_nonzero", what, nodeidx, nodes[nodeidx].td->name);
    enc_free(&E);
}

NI static int next_perm(int *p, int n) {
    int i = n - 2; while(i >= 0 && p[i] > p[i + 1]) i--; if(i < 0) return 0;
    int j = n - 1; while(p[j] < p[i]) j--; int t = p[i]; p[i] = p[j]; p[j] = t;
    for(int a = i + 1, b = n - 1; a < b; a++, b--) { t = p[a]; p[a] = p[b]; p[b] = t; }
    return 1;
}

NI static void transform_mode(asn_TYPE_descriptor_t *td, const unsigned char *in, size_t n, struct xres *R) {
    void *s0 = 0, *r = 0;
    if(asn_decode(0, ATS_BER, td, &s0, in, n).code != RC_OK || asn_decode(0, ATS_BER, td, &r, in, n).code != RC_OK) { xviol(R, "decode_failed"); ASN_STRUCT_FREE(*td, s0); ASN_STRUCT_FREE(*td, r); return; }
    struct encs base; enc_all(td, s0, &base);
    nnodes = 0; walk(td, r, 0, 0, -1, 0);
    for(int ni = 0; ni < nnodes; ni++) {
        struct node *N = &nodes[ni];
        switch(kind_of(N->td)) {
        case NK_SETOF: {
            asn_anonymous_set_ *l = _A_SET_FROM_VOID(N->ptr);
            int c = l->count; if(c < 2) break;
            void **orig = __real_malloc(c * sizeof(void *)); memcpy(orig, l->array, c * sizeof(void *));
            if(c <= 4) {
                int p[4] = { 0, 1, 2, 3 };
                while(next_perm(p, c)) { for(int i = 0; i < c; i++) l->array[i] = orig[p[i]]; check_same(td, s0, r, &base, "setof_perm", ni, R); R->kinds[0]++; }
            } else {
                /* every rotation for short lists; for long ones (fragmented PER lengths) the rotations that move elements across
                 * the 16K fragment boundaries and the two extremes */
                int few[6] = { 1, c / 2, c - 1, 16384, c - 16384, 100 };
                for(int rot = 1; rot < c; rot++) {
                    if(c > 64) { int use = 0; for(int q = 0; q < 6; q++) if(few[q] == rot) use = 1; if(!use) continue; }
                    for(int i = 0; i < c; i++) l->array[i] = orig[(i + rot) % c]; check_same(td, s0, r, &base, "setof_rot", ni, R); R->kinds[0]++; }
                for(int i = 0; i < c; i++) l->array[i] = orig[c - 1 - i]; check_same(td, s0, r, &base, "setof_rev", ni, R); R->kinds[0]++;
            }
            memcpy(l->array, orig, c * sizeof(void *)); __real_free(orig);
            break; }
        case NK_INTEGER: {
            INTEGER_t *I = N->ptr; if(!I->buf || I->size == 0) break;
            uint8_t *ob = I->buf; size_t os = I->size;
            for(int padn = 1; padn <= 9; padn += 8) {
                uint8_t *nb = malloc(os + padn + 1);
                memset(nb, (ob[0] & 0x80) ? 0xff : 0x00, padn); memcpy(nb + padn, ob, os); nb[os + padn] = 0;
                I->buf = nb; I->size = os + padn;
                check_same(td, s0, r, &base, padn == 1 ? "int_pad1" : "int_pad9", ni, R); R->kinds[1]++;
                free(nb);
            }
            I->buf = ob; I->size = os;
            break; }
        case NK_BITSTR: {
            BIT_STRING_t *B = N->ptr; if(!B->buf || B->size == 0 || B->bits_unused == 0) break;
            uint8_t save = B->buf[B->size - 1]; uint8_t mask = (1u << B->bits_unused) - 1;
            B->buf[B->size - 1] = save | mask; check_same(td, s0, r, &base, "bits_unused_ones", ni, R); R->kinds[2]++;
            B->buf[B->size - 1] = save | 1; check_same(td, s0, r, &base, "bits_unused_lsb", ni, R); R->kinds[2]++;
            B->buf[B->size - 1] = save;
            break; }
        case NK_SEQ: case NK_SET:
            for(unsigned i = 0; i < N->td->elements_count; i++) {
                asn_TYPE_member_t *e = &N->td->elements[i];
                if(!e->default_value_cmp || !e->default_value_set || !(e->flags & ATF_POINTER)) continue;
                void **mp = (void **)((char *)N->ptr + e->memb_offset);
                if(*mp == 0) {
                    /* DEFAULT absent in the structure: materialise it explicitly */
                    if(e->default_value_set(mp) == 0 && *mp) {
                        check_same(td, s0, r, &base, "default_materialised", ni, R); R->kinds[3]++;
                        ASN_STRUCT_FREE(*e->type, *mp); *mp = 0;
                    }
                } else if(e->default_value_cmp(*mp) == 0) {
                    /* DEFAULT stored explicitly: drop it */
                    void *keep = *mp; *mp = 0;
                    check_same(td, s0, r, &base, "default_dropped", ni, R); R->kinds[3]++;
                    *mp = keep;
                }
            }
            break;
        case NK_OCTSTR: {
            OCTET_STRING_t *O = N->ptr; if(!O->buf) break;
            uint8_t *ob = O->buf; uint8_t *nb = malloc(O->size + 64);
            memcpy(nb, ob, O->size); memset(nb + O->size, 0x5a, 64); if(O->size < (size_t)O->size + 64) nb[O->size] = 0;
            O->buf = nb; check_same(td, s0, r, &base, "octs_spare_capacity", ni, R); R->kinds[4]++;
            O->buf = ob; free(nb);
            break; }
        default: break;
        }
    }
    enc_free(&base);
    ASN_STRUCT_FREE(*td, s0); ASN_STRUCT_FREE(*td, r);
}

NI static int null_cb(const void *b, size_t n, void *k) { (void)b; (void)n; (void)k; return 0; }
static enum asn_transfer_syntax ALLSYN[5] = { ATS_DER, ATS_CANONICAL_OER, ATS_UNALIGNED_CANONICAL_PER, ATS_BASIC_XER, ATS_CANONICAL_XER };
static const char *ALLSYNN[5] = { "der", "oer", "uper", "xer", "cxer" };

NI static void try_encoders(asn_TYPE_descriptor_t *td, void *r, const char *what, int ni, struct xres *R) {
    char lab[160];
    for(int e = 0; e < 5; e++) {
        if(pm_masked(ALLSYNN[e])) continue;
        snprintf(lab, sizeof lab, "c:%s@node%d(%s):%s", what, ni, nodes[ni].td->name, ALLSYNN[e]); if(cur_label(lab)) continue;
        errno = 0;
        asn_enc_rval_t er = asn_encode(0, ALLSYN[e], td, r, null_cb, 0);
        R->transforms++;
        if(er.encoded < 0 && (er.encoded != -1 || errno == 0)) xviol(R, "%s@node%d:%s:ret%zd:errno%d", what, ni, ALLSYNN[e], er.encoded, errno);
    }
    char eb[64]; size_t el = sizeof eb;
    snprintf(lab, sizeof lab, "c:%s@node%d(%s):constraints", what, ni, nodes[ni].td->name);
    if(!cur_label(lab)) asn_check_constraints(td, r, eb, &el);
}

NI static void corrupt_mode(asn_TYPE_descriptor_t *td, const unsigned char *in, size_t n, struct xres *R) {
    void *r = 0;
    if(asn_decode(0, ATS_BER, td, &r, in, n).code != RC_OK) { xviol(R, "decode_failed"); ASN_STRUCT_FREE(*td, r); return; }
    nnodes = 0; walk(td, r, 0, 0, -1, 0);
    for(int ni = 0; ni < nnodes; ni++) {
        struct node *N = &nodes[ni];
        switch(kind_of(N->td)) {
        case NK_SEQ: case NK_SET:
            for(unsigned i = 0; i < N->td->elements_count; i++) {
                asn_TYPE_member_t *e = &N->td->elements[i];
                if(!(e->flags & ATF_POINTER) || e->optional) continue;
                void **mp = (void **)((char *)N->ptr + e->memb_offset);
                if(!*mp) continue;
                void *keep = *mp; *mp = 0;
                try_encoders(td, r, "mandatory_null", ni, R); R->kinds[5]++;
                *mp = keep;
            }
            break;
        case NK_CHOICE: {
            unsigned pr = choice_present(N->td, N->ptr);
            choice_set_present(N->td, N->ptr, 0); try_encoders(td, r, "choice_unselected", ni, R); R->kinds[6]++;
            choice_set_present(N->td, N->ptr, N->td->elements_count + 1); try_encoders(td, r, "choice_out_of_range", ni, R); R->kinds[6]++;
            choice_set_present(N->td, N->ptr, pr);
            break; }
        default: break;
        }
    }
    ASN_STRUCT_FREE(*td, r);
}

/* canon2 TYPE DERHEX VARIANTHEX : structures decoded from two BER forms of one value must encode identically */
void cmd_canon2(char **a, int na) {
    asn_TYPE_descriptor_t *td = find_type(a[1]);
    if(!td || na < 4) { printf("canon2 ERR args\n"); return; }
    unsigned char *in; size_t n = unhex(a[2], &in);
    unsigned char *in2; size_t n2 = unhex(a[3], &in2);
    struct xres R; memset(&R, 0, sizeof R);
    void *s0 = 0, *r = 0;
    if(asn_decode(0, ATS_BER, td, &s0, in, n).code != RC_OK || asn_decode(0, ATS_BER, td, &r, in2, n2).code != RC_OK) {
        /* a rejected variant is C03's subject */
        printf("canon2 transforms=0 viol=0 rejected=1\n");
    } else {
        struct encs base; enc_all(td, s0, &base);
        nnodes = 1; nodes[0].td = td; nodes[0].ptr = r;
        check_same(td, s0, r, &base, "decoded_from_variant", 0, &R);
        enc_free(&base);
        printf("canon2 transforms=%ld viol=%ld", R.transforms, R.viol);
        for(int i = 0; i < R.nrec; i++) printf(" v=%s", R.rec[i]);
        printf("\n");
    }
    ASN_STRUCT_FREE(*td, s0); ASN_STRUCT_FREE(*td, r);
    exact_free(in, n); exact_free(in2, n2);
}

void cmd_xform(char **a, int na) {
    cur_init();
    asn_TYPE_descriptor_t *td = find_type(a[1]);
    if(!td || na < 3) { printf("xform ERR args\n"); return; }
    unsigned char *in; size_t n = unhex(a[2], &in);
    struct xres R; memset(&R, 0, sizeof R);
    if(na > 3 && strchr(a[3], 'c')) corrupt_mode(td, in, n, &R); else transform_mode(td, in, n, &R);
    exact_free(in, n);
    printf("xform nodes=%d transforms=%ld setof=%ld intpad=%ld bits=%ld default=%ld spare=%ld mandnull=%ld choice=%ld bufnull=%ld viol=%ld",
           nnodes, R.transforms, R.kinds[0], R.kinds[1], R.kinds[2], R.kinds[3], R.kinds[4], R.kinds[5], R.kinds[6], R.kinds[7], R.viol);
    for(int i = 0; i < R.nrec; i++) printf(" v=%s", R.rec[i]);
    printf("\n");
}

/* ---- C10: descriptor lint ------------------------------------------------------------------ */
NI static int lint_td(const asn_TYPE_descriptor_t *td, int depth, char *why, size_t wl) {
    if(depth > 6) return 0;
    if(!td->name || !td->op || !td->op->free_struct || !td->op->print_struct || !td->op->ber_decoder || !td->op->der_encoder
       || !td->op->xer_decoder || !td->op->xer_encoder) { snprintf(why, wl, "%s:null_op", td->name ? td->name : "?"); return 1; }
    if(td->tags_count && !td->tags) { snprintf(why, wl, "%s:tags_null", td->name); return 1; }
    if(td->all_tags_count < td->tags_count) { snprintf(why, wl, "%s:all_tags_count", td->name); return 1; }
    enum nkind k = kind_of(td);
    if(k == NK_SEQ || k == NK_SET) {
        unsigned ssize = (k == NK_SEQ) ? ((const asn_SEQUENCE_specifics_t *)td->specifics)->struct_size : ((const asn_SET_specifics_t *)td->specifics)->struct_size;
        const asn_TYPE_tag2member_t *t2m = (k == NK_SEQ) ? ((const asn_SEQUENCE_specifics_t *)td->specifics)->tag2el : ((const asn_SET_specifics_t *)td->specifics)->tag2el;
        unsigned t2n = (k == NK_SEQ) ? ((const asn_SEQUENCE_specifics_t *)td->specifics)->tag2el_count : ((const asn_SET_specifics_t *)td->specifics)->tag2el_count;
        for(unsigned i = 0; i < td->elements_count; i++) {
            const asn_TYPE_member_t *e = &td->elements[i];
            if(!e->type || !e->name) { snprintf(why, wl, "%s:elm%u_null", td->name, i); return 1; }
            if(e->memb_offset >= ssize) { snprintf(why, wl, "%s:elm%u_offset", td->name, i); return 1; }
            if(!(e->flags & ATF_POINTER) && e->optional && k == NK_SEQ && !(e->flags & ATF_OPEN_TYPE)) { /* optional non-pointer members are legal only for open types */ }
        }
        for(unsigned i = 0; i + 1 < t2n; i++) if(t2m[i].el_tag > t2m[i + 1].el_tag) { snprintf(why, wl, "%s:tag2el_unsorted", td->name); return 1; }
        for(unsigned i = 0; i < t2n; i++) if(t2m[i].el_no >= td->elements_count) { snprintf(why, wl, "%s:tag2el_elno", td->name); return 1; }
        if(k == NK_SEQ) {
            const asn_SEQUENCE_specifics_t *sp = td->specifics;
            if(sp->first_extension != (unsigned)-1 && sp->first_extension > td->elements_count) { snprintf(why, wl, "%s:first_extension", td->name); return 1; }
            for(unsigned i = 0; i < sp->roms_count + sp->aoms_count; i++) if(sp->oms[i] < 0 || (unsigned)sp->oms[i] >= td->elements_count) { snprintf(why, wl, "%s:oms", td->name); return 1; }
        }
    }
    if(k == NK_CHOICE) {
        const asn_CHOICE_specifics_t *sp = td->specifics;
        for(unsigned i = 0; i < td->elements_count; i++) if(td->elements[i].memb_offset >= sp->struct_size) { snprintf(why, wl, "%s:alt%u_offset", td->name, i); return 1; }
        for(unsigned i = 0; i < sp->tag2el_count; i++) if(sp->tag2el[i].el_no >= td->elements_count) { snprintf(why, wl, "%s:tag2el_elno", td->name); return 1; }
        for(unsigned i = 0; i + 1 < sp->tag2el_count; i++) if(sp->tag2el[i].el_tag > sp->tag2el[i + 1].el_tag) { snprintf(why, wl, "%s:tag2el_unsorted", td->name); return 1; }
    }
    for(unsigned i = 0; i < td->elements_count; i++) if(td->elements[i].type && td->elements[i].type != td && lint_td(td->elements[i].type, depth + 1, why, wl)) return 1;
    return 0;
}

void cmd_lint(char **a, int na) {
    (void)na;
    asn_TYPE_descriptor_t *td = find_type(a[1]);
    if(!td) { printf("lint ERR notype\n"); return; }
    char why[200]; why[0] = 0;
    int bad = lint_td(td, 0, why, sizeof why);
    printf("lint bad=%d why=%s\n", bad, bad ? why : "-");
}
