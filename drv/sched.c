/* C19: preemption-bounded exploration of two real threads running real codec calls.
 *
 * The skeletons and the generated code are compiled with -finstrument-functions, so every entry and exit of
 * every library function calls the hooks below; together with the wrapped allocator and the harness' output
 * callback these are the scheduling points. A hand-written scheduler serialises the threads (exactly one runs
 * at any time) and switches at the point indices listed in the current schedule. All schedules with at most P
 * preemptions are enumerated (iterative context bounding); every thread's transcript must equal the transcript
 * of the same script run alone.
 *
 *   sched P TYPE_A HEX_A SCRIPT_A TYPE_B HEX_B SCRIPT_B [maxschedules]
 * SCRIPT letters (first op is always the BER decode of HEX into the thread's structure):
 *   D O U X C  encode DER / OER / UPER / BASIC-XER / CANONICAL-XER        d o u x  decode the bytes the matching
 *   encode produced earlier in this script (into a second structure, compared by DER, freed)
 *   v check constraints    p print    c compare with itself    f free (implicit at the end)
 * With -DFREE_RUN the same scripts run on free-running threads (for the ThreadSanitizer pass).
 */
#define _GNU_SOURCE
#include "drv.h"
#include <pthread.h>
#include <unistd.h>
#ifdef FREE_RUN   /* no --wrap in the ThreadSanitizer build */
#define __real_malloc malloc
#define __real_calloc calloc
#define __real_realloc realloc
#define __real_free free
#endif

#define NT 2
#define MAXPRE 4

#ifndef FREE_RUN
static pthread_mutex_t mu = PTHREAD_MUTEX_INITIALIZER;
static pthread_cond_t cv = PTHREAD_COND_INITIALIZER;
static int cur = -1, done[NT], active;
static __thread int me = -1;
static long npoints;
static long preempt_at[MAXPRE]; static int npre;
static long per_thread_points[NT];

NI static void yield_point(void) {
    if(me < 0 || !active) return;
    pthread_mutex_lock(&mu);
    long p = npoints++;
    per_thread_points[me]++;
    int sw = 0;
    for(int i = 0; i < npre; i++) if(preempt_at[i] == p) sw = 1;
    if(sw) {
        int o = 1 - me;
        if(!done[o]) { cur = o; pthread_cond_broadcast(&cv); while(cur != me) pthread_cond_wait(&cv, &mu); }
    }
    pthread_mutex_unlock(&mu);
}
NI void __cyg_profile_func_enter(void *f, void *c) { (void)f; (void)c; yield_point(); }
NI void __cyg_profile_func_exit(void *f, void *c) { (void)f; (void)c; yield_point(); }
NI void *__wrap_malloc(size_t n) { yield_point(); return __real_malloc(n); }
NI void *__wrap_calloc(size_t a, size_t b) { yield_point(); return __real_calloc(a, b); }
NI void *__wrap_realloc(void *p, size_t n) { yield_point(); return __real_realloc(p, n); }
NI void __wrap_free(void *p) { yield_point(); __real_free(p); }
#else
NI static void yield_point(void) {}
#endif

NI asn_TYPE_descriptor_t *find_type(const char *name) {
    for(int i = 0; verif_types[i].name; i++) if(!strcmp(verif_types[i].name, name)) return verif_types[i].td;
    return 0;
}

struct out { unsigned char *b; size_t n, cap; };
NI static int out_cb(const void *d, size_t n, void *k) {
    struct out *o = k;
    yield_point();   /* before the bytes are copied: a shared scratch buffer can be overwritten here */
    if(o->n + n > o->cap) { o->cap = (o->n + n) * 2 + 64; o->b = __real_realloc(o->b, o->cap); }
    memcpy(o->b + o->n, d, n); o->n += n;
    return 0;
}

struct tctx {
    asn_TYPE_descriptor_t *td; const unsigned char *in; size_t inlen; const char *script;
    char *transcript; size_t tn, tcap;
};
NI static void tput(struct tctx *t, const char *fmt, ...) {
    char buf[256]; va_list ap; va_start(ap, fmt); int n = vsnprintf(buf, sizeof buf, fmt, ap); va_end(ap);
    if(t->tn + n + 1 > t->tcap) { t->tcap = (t->tn + n) * 2 + 256; t->transcript = __real_realloc(t->transcript, t->tcap); }
    memcpy(t->transcript + t->tn, buf, n + 1); t->tn += n;
}
NI static void tputhex(struct tctx *t, const unsigned char *b, size_t n) {
    if(t->tn + 2 * n + 2 > t->tcap) { t->tcap = (t->tn + 2 * n) * 2 + 256; t->transcript = __real_realloc(t->transcript, t->tcap); }
    static const char d[] = "0123456789abcdef";
    for(size_t i = 0; i < n; i++) { t->transcript[t->tn++] = d[b[i] >> 4]; t->transcript[t->tn++] = d[b[i] & 15]; }
    t->transcript[t->tn] = 0;
}

static enum asn_transfer_syntax syn_of(int c) {
    switch(c | 32) { case 'd': return ATS_DER; case 'o': return ATS_CANONICAL_OER; case 'u': return ATS_UNALIGNED_CANONICAL_PER; case 'x': return ATS_BASIC_XER; default: return ATS_CANONICAL_XER; }
}

NI static void run_script(struct tctx *t) {
    void *s = 0;
    struct out last[128]; memset(last, 0, sizeof last);
    t->tn = 0; if(t->transcript) t->transcript[0] = 0;
    errno = 0;
    asn_dec_rval_t rv = asn_decode(0, ATS_BER, t->td, &s, t->in, t->inlen);
    tput(t, "b:%d:%zu;", rv.code, rv.consumed);
    for(const char *p = t->script; *p && s; p++) {
        int c = *p;
        if(c == 'D' || c == 'O' || c == 'U' || c == 'X' || c == 'C') {
            struct out *o = &last[c | 32]; o->n = 0;
            errno = 0;
            asn_enc_rval_t er = asn_encode(0, syn_of(c), t->td, s, out_cb, o);
            tput(t, "%c:%zd:%d:", c, er.encoded, er.encoded < 0 ? errno : 0); tputhex(t, o->b, o->n); tput(t, ";");
        } else if(c == 'd' || c == 'o' || c == 'u' || c == 'x') {
            struct out *o = &last[c]; void *s2 = 0;
            asn_dec_rval_t r2 = asn_decode(0, syn_of(c), t->td, &s2, o->b, o->n);
            struct out d2 = { 0, 0, 0 };
            asn_enc_rval_t e2; e2.encoded = -9;
            if(s2 && r2.code == RC_OK) e2 = asn_encode(0, ATS_DER, t->td, s2, out_cb, &d2);
            tput(t, "%c:%d:%zu:%zd:", c, r2.code, r2.consumed, e2.encoded); tputhex(t, d2.b, d2.n); tput(t, ";");
            __real_free(d2.b);
            ASN_STRUCT_FREE(*t->td, s2);
        } else if(c == 'v') {
            char eb[128]; size_t el = sizeof eb; eb[0] = 0;
            int r = asn_check_constraints(t->td, s, eb, &el);
            tput(t, "v:%d:%s;", r, r ? eb : "");
        } else if(c == 'p') {
            struct out o = { 0, 0, 0 };
            int r = t->td->op->print_struct(t->td, s, 1, out_cb, &o);
            tput(t, "p:%d:", r); tputhex(t, o.b, o.n); tput(t, ";");
            __real_free(o.b);
        } else if(c == 'c') {
            tput(t, "c:%d;", t->td->op->compare_struct(t->td, s, s));
        }
    }
    ASN_STRUCT_FREE(*t->td, s);
    tput(t, "f;");
    for(int i = 0; i < 128; i++) __real_free(last[i].b);
}

static struct tctx T[NT];

#ifndef FREE_RUN
NI static void *thr(void *a) {
    int id = (int)(long)a;
    pthread_mutex_lock(&mu); me = id; while(cur != id) pthread_cond_wait(&cv, &mu); pthread_mutex_unlock(&mu);
    run_script(&T[id]);
    pthread_mutex_lock(&mu); done[id] = 1; cur = 1 - id; pthread_cond_broadcast(&cv); pthread_mutex_unlock(&mu);
    return 0;
}
NI static long run_schedule(void) {
    pthread_t t[NT];
    npoints = 0; done[0] = done[1] = 0; cur = 0; per_thread_points[0] = per_thread_points[1] = 0; active = 1;
    for(long i = 0; i < NT; i++) pthread_create(&t[i], 0, thr, (void *)i);
    for(int i = 0; i < NT; i++) pthread_join(t[i], 0);
    active = 0;
    return npoints;
}
#else
NI static void *thr(void *a) { run_script(&T[(int)(long)a]); return 0; }
#endif

static int hexv(int c) { return c <= '9' ? c - '0' : (c | 32) - 'a' + 10; }
NI static size_t unhex_(const char *h, unsigned char **out) {
    size_t L = strlen(h) / 2, n = 0; unsigned char *b = __real_malloc(L ? L : 1);
    for(; h[0] && h[1]; h += 2) b[n++] = hexv(h[0]) * 16 + hexv(h[1]);
    *out = b; return n;
}

NI int main(int ac, char **av) {
    if(ac < 8) { fprintf(stderr, "usage: sched P TA HA SA TB HB SB [max]\n"); return 2; }
    int P = atoi(av[1]);
    long maxs = ac > 8 ? atol(av[8]) : 2000000;
    for(int i = 0; i < NT; i++) {
        T[i].td = find_type(av[2 + 3 * i]);
        if(!T[i].td) { printf("sched ERR notype %s\n", av[2 + 3 * i]); return 2; }
        unsigned char *b; T[i].inlen = unhex_(av[3 + 3 * i], &b); T[i].in = b;
        T[i].script = av[4 + 3 * i];
    }
    /* reference transcripts: each script alone, on the main thread, no scheduling */
    char *ref[NT];
    for(int i = 0; i < NT; i++) { run_script(&T[i]); ref[i] = strdup(T[i].transcript); }
    /* determinism of the alone run */
    for(int i = 0; i < NT; i++) { run_script(&T[i]); if(strcmp(ref[i], T[i].transcript)) { printf("sched ERR alone-run of thread %d is not deterministic\n", i); return 2; } }
#ifdef FREE_RUN
    long runs = P > 0 ? P : 200, bad = 0;
    for(long r = 0; r < runs; r++) {
        pthread_t t[NT];
        for(long i = 0; i < NT; i++) pthread_create(&t[i], 0, thr, (void *)i);
        for(int i = 0; i < NT; i++) pthread_join(t[i], 0);
        for(int i = 0; i < NT; i++) if(strcmp(ref[i], T[i].transcript)) bad++;
    }
    printf("freerun runs=%ld mismatches=%ld\n", runs, bad);
    return 0;
#else
    long schedules = 0, viol = 0, total_points = 0; char first[600]; first[0] = 0;
    int outcomes = 1;
    npre = 0;
    long n0 = run_schedule(); schedules++; total_points += n0;
    long ptsA = per_thread_points[0];
    for(int i = 0; i < NT; i++) if(strcmp(ref[i], T[i].transcript)) { viol++; if(!first[0]) snprintf(first, sizeof first, "P0:thread%d", i); }
    /* replay check: the same schedule twice must give the same number of points */
    if(run_schedule() != n0) { printf("sched ERR replay of the empty schedule diverged\n"); return 2; }
    int bound_done = 0, capped = 0;
    if(P >= 1) {
        /* one preemption: thread 0 is preempted at its k-th point, for every k (thread 1 then runs to completion: with two
         * threads and one preemption only thread 0 can be preempted, thread 1 starts when 0 yields or finishes) */
        for(long k = 0; k < ptsA && !capped; k++) {
            npre = 1; preempt_at[0] = k;
            long n1 = run_schedule(); schedules++; total_points += n1;
            int bad = 0;
            for(int i = 0; i < NT; i++) if(strcmp(ref[i], T[i].transcript)) bad = 1 + i;
            if(bad) { viol++; outcomes = 2; if(!first[0]) snprintf(first, sizeof first, "P1:@%ld:thread%d:got=%.200s", k, bad - 1, T[bad - 1].transcript); }
            if(schedules >= maxs) capped = 1;
        }
        if(!capped) bound_done = 1;
    } else bound_done = 0;
    if(P >= 2 && !capped) {
        /* two preemptions: 0 preempted at global point k1, then 1 preempted at global point k2 > k1 (0 resumes) */
        for(long k1 = 0; k1 < ptsA && !capped; k1++) {
            /* discover how many points thread 1 contributes after the switch */
            npre = 1; preempt_at[0] = k1; run_schedule();
            long ptsB = per_thread_points[1];
            for(long j = 1; j <= ptsB && !capped; j++) {
                npre = 2; preempt_at[0] = k1; preempt_at[1] = k1 + j;
                long n2 = run_schedule(); schedules++; total_points += n2;
                int bad = 0;
                for(int i = 0; i < NT; i++) if(strcmp(ref[i], T[i].transcript)) bad = 1 + i;
                if(bad) { viol++; outcomes = 2; if(!first[0]) snprintf(first, sizeof first, "P2:@%ld,%ld:thread%d:got=%.200s", k1, k1 + j, bad - 1, T[bad - 1].transcript); }
                if(schedules >= maxs) capped = 1;
            }
        }
        if(!capped) bound_done = 2;
    }
    printf("sched points=%ld pointsA=%ld schedules=%ld total_points=%ld bound_done=%d capped=%d outcomes=%d viol=%ld first=%s\n",
           n0, ptsA, schedules, total_points, bound_done, capped, outcomes, viol, first[0] ? first : "-");
    return 0;
#endif
}
