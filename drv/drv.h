/* shared declarations of the generic, descriptor-driven verification driver */
#ifndef VERIF_DRV_H
#define VERIF_DRV_H
#include <stdio.h>
#include <stdlib.h>
#include <string.h>
#include <stdint.h>
#include <errno.h>
#include <asn_application.h>
#include <asn_internal.h>

#define NI __attribute__((no_instrument_function))

struct verif_type { const char *name; asn_TYPE_descriptor_t *td; };
extern struct verif_type verif_types[];

/* ---- ledger.c: allocation ledger + fault injector behind -Wl,--wrap=malloc,... */
void *__real_malloc(size_t);
void *__real_calloc(size_t, size_t);
void *__real_realloc(void *, size_t);
void __real_free(void *);

struct ledger_blk { void *p; size_t n; unsigned long seq; };
extern struct ledger_blk *ledger_blocks;
extern int ledger_nblocks;
extern volatile int ledger_on;            /* track allocations made while != 0 */
extern long ledger_count;        /* allocation calls seen while on (malloc/calloc/realloc) */
extern long ledger_fail_at;      /* fail the k-th allocation call (1-based), 0 = never */
extern long ledger_fail_at2;     /* second failure index, 0 = none */
extern int ledger_failed;        /* number of injected failures that fired */
extern long ledger_bad_free;     /* frees of unknown / already freed pointers while on */
extern size_t ledger_live_bytes, ledger_peak_bytes;
extern size_t ledger_big_request; /* largest single request seen */
extern size_t ledger_limit;       /* requests above this size fail */
void ledger_reset(void);         /* forget everything (does not free) */
int ledger_live(void);
void ledger_forget(void *p);     /* stop tracking p (ownership moved to the harness) */
int ledger_snapshot(void);       /* fills ledger_blocks[] (allocation order), returns count */
size_t ledger_size_of(void *p);  /* (size_t)-1 if not tracked */

/* ---- canon.c: canonical image of the tracked heap */
size_t canon_image(unsigned char *out, size_t cap);

/* ---- util */
asn_TYPE_descriptor_t *find_type(const char *name);
enum asn_transfer_syntax syntax_by_name(const char *s);
size_t unhex(const char *h, unsigned char **out);   /* returns length; *out is an exact-size heap block (real malloc) */
void exact_free(unsigned char *p, size_t n);
unsigned char *exact_dup(const unsigned char *src, size_t n);
void puthex(FILE *f, const void *b, size_t n);
void cur_init(void);
void cur_set(long idx, const unsigned char *b, size_t n);
int cur_label(const char *s);   /* returns 1 if the sub-case is in the skip set */
void cur_skip_set(const char *s);
extern const char *pm_mask;
int pm_masked(const char *syn);

#endif
