/* C04: exhaustive bounded mutation of a seed encoding; every mutant is decoded from an exact-size heap block,
 * then printed, validated, re-encoded and freed; the ledger must be empty afterwards.
 *   mut TYPE SYNTAX HEX CLASSES [START]
 * CLASSES: letters  t=truncations  s=single-byte substitution x256  p=pairs over 8-symbol alphabet
 *          i=insertions  d=deletions  a=all strings of length <=2  b=length-3 strings over the alphabet
 *          e=length lie with payload: single-byte substitution x256 in the first 6 octets (where the length
 *            determinants of the outer levels live) followed by 48 filler octets, so that a larger quantity
 *            than the constraint allows is not only claimed but really delivered
 * The current mutant (index + bytes) is mirrored into a shared file (env VERIF_CUR) so that a crash can be
 * attributed to one input by the Python side.
 */
#include "drv.h"
#include <unistd.h>

static FILE *devnull;
NI static int null_cb(const void *b, size_t n, void *k) { (void)b; (void)n; (void)k; return 0; }
static enum asn_transfer_syntax ALLSYN[5] = { ATS_DER, ATS_CANONICAL_OER, ATS_UNALIGNED_CANONICAL_PER, ATS_BASIC_XER, ATS_CANONICAL_XER };

struct mstat { long n, rc[3], viol; char first[4200]; long outcomes; unsigned long long ohash[64]; };

NI static void outcome(struct mstat *st, int rc, size_t consumed) {
    unsigned long long h = ((unsigned long long)rc << 56) | consumed;
    for(long i = 0; i < st->outcomes && i < 64; i++) if(st->ohash[i] == h) return;
    if(st->outcomes < 64) st->ohash[st->outcomes] = h;
    st->outcomes++;
}

NI static void one(asn_TYPE_descriptor_t *td, enum asn_transfer_syntax sy, const unsigned char *b, size_t n, long idx, long start, struct mstat *st) {
    if(idx < start) return;
    cur_set(idx, b, n);
    alarm(6);   /* per-mutant watchdog: a hang is attributed to this input through the shared slot */
    unsigned char *x = exact_dup(b, n);
    ledger_reset(); ledger_on = 1;
    void *s = 0;
    asn_dec_rval_t rv = asn_decode(0, sy, td, &s, x, n);
    const char *why = 0;
    if(rv.code != RC_OK && rv.code != RC_WMORE && rv.code != RC_FAIL) why = "badrc";
    else if(rv.consumed > n) why = "overconsumed";
    if(s) {
        asn_fprint(devnull, td, s);
        char eb[128]; size_t el = sizeof eb;
        asn_check_constraints(td, s, eb, &el);
        static const char *SN[5] = { "der", "oer", "uper", "xer", "cxer" };
        for(int i = 0; i < 5; i++) if(!pm_masked(SN[i])) asn_encode(0, ALLSYN[i], td, s, null_cb, 0);
    }
    ASN_STRUCT_FREE(*td, s);
    ledger_on = 0;
    if(!why && ledger_live()) why = "leak";
    if(!why && ledger_bad_free) why = "badfree";
    exact_free(x, n);
    st->n++;
    if(rv.code >= 0 && rv.code <= 2) st->rc[rv.code]++;
    outcome(st, rv.code, rv.consumed);
    if(why) {
        st->viol++;
        if(!st->first[0]) {
            int o = snprintf(st->first, 64, "%s:idx%ld:rc%d:c%zu:", why, idx, rv.code, rv.consumed);
            for(size_t i = 0; i < n && o < 4100; i++) o += sprintf(st->first + o, "%02x", b[i]);
            if(n == 0) strcat(st->first, "-");
        }
    }
}

static const unsigned char ALPHA_BIN[8] = { 0x00, 0x01, 0x7f, 0x80, 0x81, 0xfe, 0xff, 0x30 };
static const unsigned char ALPHA_XML[11] = { '<', '>', '/', '&', ';', '-', '!', ' ', 0, 'a', '1' };

void cmd_mut(char **a, int na) {
    if(!devnull) devnull = fopen("/dev/null", "w");
    cur_init();
    asn_TYPE_descriptor_t *td = find_type(a[1]);
    if(!td || na < 5) { printf("mut ERR args\n"); return; }
    enum asn_transfer_syntax sy = syntax_by_name(a[2]);
    unsigned char *seed; size_t n = unhex(a[3], &seed);
    const char *cls = a[4];
    long start = na > 5 ? atol(a[5]) : 0;
    int isxml = (sy == ATS_BASIC_XER || sy == ATS_CANONICAL_XER);
    const unsigned char *al = isxml ? ALPHA_XML : ALPHA_BIN; int nal = isxml ? 11 : 8;
    struct mstat st; memset(&st, 0, sizeof st);
    unsigned char *m = __real_malloc(n + 8);
    long idx = 0;
    if(strchr(cls, 't')) for(size_t k = 0; k <= n; k++) one(td, sy, seed, k, idx++, start, &st);
    if(strchr(cls, 's')) for(size_t p = 0; p < n; p++) {
        memcpy(m, seed, n);
        if(isxml) { for(int j = 0; j < nal; j++) { if(al[j] == seed[p]) { idx++; continue; } m[p] = al[j]; one(td, sy, m, n, idx++, start, &st); }
                    for(int v = 0x80; v < 0x100; v += 0x1f) { m[p] = v; one(td, sy, m, n, idx++, start, &st); } }
        else for(int v = 0; v < 256; v++) { if(v == seed[p]) { idx++; continue; } m[p] = v; one(td, sy, m, n, idx++, start, &st); }
    }
    if(strchr(cls, 'e') && !isxml) {
        unsigned char *e = __real_malloc(n + 48);
        for(size_t p = 0; p < n && p < 6; p++) for(int v = 0; v < 256; v++) {
            if(v == seed[p]) { idx++; continue; }
            memcpy(e, seed, n); e[p] = v; memset(e + n, 0x41, 48);
            one(td, sy, e, n + 48, idx++, start, &st);
        }
        __real_free(e);
    }
    if(strchr(cls, 'p')) for(size_t p = 0; p < n; p++) for(size_t q = p + 1; q < n; q++) {
        for(int j = 0; j < nal; j++) for(int k = 0; k < nal; k++) {
            memcpy(m, seed, n);
            m[p] = (!isxml && j == 7) ? (seed[p] ^ 0x80) : al[j];
            m[q] = (!isxml && k == 7) ? (seed[q] ^ 0x80) : al[k];
            if(m[p] == seed[p] || m[q] == seed[q]) { idx++; continue; }
            one(td, sy, m, n, idx++, start, &st);
        }
    }
    if(strchr(cls, 'i')) for(size_t p = 0; p <= n; p++) for(int j = 0; j < nal; j++) {
        memcpy(m, seed, p); m[p] = al[j]; memcpy(m + p + 1, seed + p, n - p);
        one(td, sy, m, n + 1, idx++, start, &st);
    }
    if(strchr(cls, 'd')) for(size_t p = 0; p < n; p++) {
        memcpy(m, seed, p); memcpy(m + p, seed + p + 1, n - p - 1);
        one(td, sy, m, n - 1, idx++, start, &st);
    }
    if(strchr(cls, 'a')) {
        unsigned char s2[2];
        one(td, sy, s2, 0, idx++, start, &st);
        for(int x = 0; x < 256; x++) { s2[0] = x; one(td, sy, s2, 1, idx++, start, &st); }
        for(int x = 0; x < 256; x++) for(int y = 0; y < 256; y++) { s2[0] = x; s2[1] = y; one(td, sy, s2, 2, idx++, start, &st); }
    }
    if(strchr(cls, 'b')) {
        unsigned char s3[3];
        for(int x = 0; x < nal; x++) for(int y = 0; y < nal; y++) for(int z = 0; z < nal; z++) {
            s3[0] = al[x]; s3[1] = al[y]; s3[2] = al[z]; one(td, sy, s3, 3, idx++, start, &st);
        }
    }
    alarm(0);
    __real_free(m);
    exact_free(seed, n);
    printf("mut n=%ld ok=%ld fail=%ld wmore=%ld outcomes=%ld viol=%ld first=%s\n", st.n, st.rc[0], st.rc[2], st.rc[1], st.outcomes, st.viol, st.first[0] ? st.first : "-");
}
