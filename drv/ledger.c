/* allocation ledger and k-th-allocation fault injector; linked with -Wl,--wrap=malloc,calloc,realloc,free
 * O(1) insert/lookup/delete: node pool + allocation-ordered doubly linked list + open-addressing hash. */
#include "drv.h"

#define POOL (1 << 19)
#define HASHN (1 << 21)
#define TOUCHN (1 << 12)
struct lnode { void *p; size_t n; int prev, next; };
static struct lnode pool[POOL];
static int freelist = -1, pool_used, head = -1, tail = -1;
static int htab[HASHN];            /* node index + 1, 0 = empty, -1 = tombstone */
static int hash_dirty;
static unsigned touched[TOUCHN]; static int ntouched;   /* slots written since the last reset (cheap reset) */
int ledger_nblocks;
volatile int ledger_on;
long ledger_count;
long ledger_fail_at, ledger_fail_at2;
int ledger_failed;
long ledger_bad_free;
size_t ledger_live_bytes, ledger_peak_bytes, ledger_big_request;
struct ledger_blk *ledger_blocks;   /* materialised on demand by ledger_snapshot() */
static struct ledger_blk snap_store[1 << 16];

NI static unsigned hslot(void *p) { uintptr_t x = (uintptr_t)p; x ^= x >> 17; x *= 0x9E3779B97F4A7C15ull; return (unsigned)(x >> 40) & (HASHN - 1); }

NI void ledger_reset(void) {
    if(hash_dirty) {
        /* cheap reset: clear only the slots that were written when few blocks were tracked */
        if(ntouched < TOUCHN) for(int i = 0; i < ntouched; i++) htab[touched[i]] = 0;
        else memset(htab, 0, sizeof htab);
        hash_dirty = 0; ntouched = 0;
    }
    freelist = -1; pool_used = 0; head = tail = -1;
    ledger_nblocks = 0; ledger_count = 0; ledger_fail_at = ledger_fail_at2 = 0; ledger_failed = 0;
    ledger_bad_free = 0; ledger_live_bytes = ledger_peak_bytes = 0; ledger_big_request = 0;
}
NI int ledger_live(void) { return ledger_nblocks; }

NI static int find(void *p) {
    unsigned h = hslot(p);
    for(unsigned k = 0; k < HASHN; k++) {
        int v = htab[(h + k) & (HASHN - 1)];
        if(v == 0) return -1;
        if(v > 0 && pool[v - 1].p == p) return v - 1;
    }
    return -1;
}
NI static void add(void *p, size_t n) {
    if(!p) return;
    int i;
    if(freelist >= 0) { i = freelist; freelist = pool[i].next; }
    else { if(pool_used == POOL) { fprintf(stderr, "ledger overflow\n"); abort(); } i = pool_used++; }
    pool[i].p = p; pool[i].n = n; pool[i].prev = tail; pool[i].next = -1;
    if(tail >= 0) pool[tail].next = i; else head = i;
    tail = i;
    unsigned h = hslot(p);
    for(unsigned k = 0; k < HASHN; k++) {
        unsigned sl = (h + k) & (HASHN - 1);
        if(htab[sl] <= 0) { if(htab[sl] == 0 && ntouched < TOUCHN) touched[ntouched++] = sl; else if(htab[sl] == 0) ntouched = TOUCHN; htab[sl] = i + 1; break; }
    }
    hash_dirty = 1;
    ledger_nblocks++;
    ledger_live_bytes += n;
    if(ledger_live_bytes > ledger_peak_bytes) ledger_peak_bytes = ledger_live_bytes;
}
NI static void del_at(int i) {
    ledger_live_bytes -= pool[i].n;
    unsigned h = hslot(pool[i].p);
    for(unsigned k = 0; k < HASHN; k++) { int *s = &htab[(h + k) & (HASHN - 1)]; if(*s == i + 1) { *s = -1; break; } if(*s == 0) break; }
    if(pool[i].prev >= 0) pool[pool[i].prev].next = pool[i].next; else head = pool[i].next;
    if(pool[i].next >= 0) pool[pool[i].next].prev = pool[i].prev; else tail = pool[i].prev;
    pool[i].p = 0;
    pool[i].next = freelist; freelist = i;
    ledger_nblocks--;
}
NI void ledger_forget(void *p) { int i = find(p); if(i >= 0) del_at(i); }

/* blocks in allocation order, for canon_image() and zero-block checks */
NI int ledger_snapshot(void) {
    int k = 0;
    for(int i = head; i >= 0 && k < (1 << 16); i = pool[i].next) { snap_store[k].p = pool[i].p; snap_store[k].n = pool[i].n; snap_store[k].seq = k; k++; }
    ledger_blocks = snap_store;
    return k;
}
NI size_t ledger_size_of(void *p) { int i = find(p); return i < 0 ? (size_t)-1 : pool[i].n; }

size_t ledger_limit = (size_t)64 << 20;   /* single requests above this fail (as a real allocator would for absurd sizes) */
NI static int tick(size_t n) {
    if(!ledger_on) return 0;
    ledger_count++;
    if(n > ledger_big_request) ledger_big_request = n;
    if(n > ledger_limit) return 1;
    if(ledger_count == ledger_fail_at || ledger_count == ledger_fail_at2) { ledger_failed++; return 1; }
    return 0;
}

NI void *__wrap_malloc(size_t n) {
    if(tick(n)) { errno = ENOMEM; return 0; }
    void *p = __real_malloc(n);
    if(ledger_on && p) { memset(p, 0xA5, n < (1u << 20) ? n : (1u << 20)); add(p, n); }
    return p;
}
NI void *__wrap_calloc(size_t a, size_t b) {
    if(tick(a * b)) { errno = ENOMEM; return 0; }
    void *p = __real_calloc(a, b);
    if(ledger_on) add(p, a * b);
    return p;
}
NI void *__wrap_realloc(void *o, size_t n) {
    if(tick(n)) { errno = ENOMEM; return 0; }
    if(!ledger_on) { if(o) { int i = find(o); if(i >= 0) del_at(i); } return __real_realloc(o, n); }
    size_t on = 0; int i = -1;
    if(o) {
        i = find(o);
        if(i < 0) { ledger_bad_free++; void *q = __real_realloc(o, n); add(q, n); return q; }
        on = pool[i].n;
    }
    /* deterministic contents: always move to a fresh block so that slack is pattern-filled */
    void *p = __real_malloc(n ? n : 1);
    if(!p) return 0;
    memset(p, 0xA5, n ? (n < (1u << 20) ? n : (1u << 20)) : 1);
    if(o) { memcpy(p, o, on < n ? on : n); }
    if(i >= 0) { del_at(i); __real_free(o); }
    add(p, n);
    return p;
}
NI void __wrap_free(void *p) {
    if(!p) return;
    int i = find(p);
    if(ledger_on) {
        if(i < 0) { ledger_bad_free++; if(getenv("VERIF_ABORT_BADFREE")) abort(); return; }   /* unknown or double free: recorded, not executed */
        del_at(i);
    } else if(i >= 0) del_at(i);
    __real_free(p);
}
