/* allocation ledger and k-th-allocation fault injector; linked with -Wl,--wrap=malloc,calloc,realloc,free */
#include "drv.h"

#define LEDGER_CAP (1 << 20)
static struct ledger_blk blocks_store[LEDGER_CAP];
struct ledger_blk *ledger_blocks = blocks_store;
int ledger_nblocks;
volatile int ledger_on;
long ledger_count;
long ledger_fail_at, ledger_fail_at2;
int ledger_failed;
long ledger_bad_free;
size_t ledger_live_bytes, ledger_peak_bytes, ledger_big_request;
static unsigned long seq;

NI void ledger_reset(void) {
    ledger_nblocks = 0; ledger_count = 0; ledger_fail_at = ledger_fail_at2 = 0; ledger_failed = 0;
    ledger_bad_free = 0; ledger_live_bytes = ledger_peak_bytes = 0; ledger_big_request = 0; seq = 0;
}
NI int ledger_live(void) { return ledger_nblocks; }

NI static void add(void *p, size_t n) {
    if(!p) return;
    if(ledger_nblocks == LEDGER_CAP) { fprintf(stderr, "ledger overflow\n"); abort(); }
    ledger_blocks[ledger_nblocks].p = p; ledger_blocks[ledger_nblocks].n = n; ledger_blocks[ledger_nblocks].seq = seq++;
    ledger_nblocks++;
    ledger_live_bytes += n;
    if(ledger_live_bytes > ledger_peak_bytes) ledger_peak_bytes = ledger_live_bytes;
}
NI static int find(void *p) {
    for(int i = ledger_nblocks - 1; i >= 0; i--) if(ledger_blocks[i].p == p) return i;
    return -1;
}
NI static void del_at(int i) {
    ledger_live_bytes -= ledger_blocks[i].n;
    memmove(ledger_blocks + i, ledger_blocks + i + 1, (ledger_nblocks - i - 1) * sizeof ledger_blocks[0]);
    ledger_nblocks--;
}
NI void ledger_forget(void *p) { int i = find(p); if(i >= 0) del_at(i); }

NI static int tick(size_t n) {
    if(!ledger_on) return 0;
    ledger_count++;
    if(n > ledger_big_request) ledger_big_request = n;
    if(ledger_count == ledger_fail_at || ledger_count == ledger_fail_at2) { ledger_failed++; return 1; }
    return 0;
}

NI void *__wrap_malloc(size_t n) {
    if(tick(n)) { errno = ENOMEM; return 0; }
    void *p = __real_malloc(n);
    if(ledger_on && p) { memset(p, 0xA5, n); add(p, n); }
    return p;
}
NI void *__wrap_calloc(size_t a, size_t b) {
    if(tick(a * b)) { errno = ENOMEM; return 0; }
    void *p = __real_calloc(a, b);
    if(ledger_on) add(p, a * b);
    return p;
}
NI void *__wrap_realloc(void *o, size_t n) {
    if(tick(n)) { errno = ENOMEM; return 0; }
    if(!ledger_on) return __real_realloc(o, n);
    size_t on = 0; int i = -1;
    if(o) {
        i = find(o);
        if(i < 0) { ledger_bad_free++; void *q = __real_realloc(o, n); add(q, n); return q; }
        on = ledger_blocks[i].n;
    }
    /* deterministic contents: always move to a fresh block so that slack is pattern-filled */
    void *p = __real_malloc(n ? n : 1);
    if(!p) return 0;
    memset(p, 0xA5, n ? n : 1);
    if(o) { memcpy(p, o, on < n ? on : n); }
    if(i >= 0) { del_at(i); __real_free(o); }
    add(p, n);
    return p;
}
NI void __wrap_free(void *p) {
    if(!p) return;
    if(ledger_on) {
        int i = find(p);
        if(i < 0) { ledger_bad_free++; if(getenv("VERIF_ABORT_BADFREE")) abort(); return; }   /* unknown or double free: recorded, not executed */
        del_at(i);
    } else {
        int i = find(p);
        if(i >= 0) del_at(i);
    }
    __real_free(p);
}
