/* Generic verification driver: reads one command per line on stdin, writes one result line per command.
 * No type-specific code: everything goes through asn_TYPE_descriptor_t found in verif_types[].
 * A crash/abort/sanitizer report kills the process; the Python side attributes it to the first
 * command without a result line and restarts the driver behind it.
 */
#include "drv.h"
#include <unistd.h>
#include <signal.h>
#include <sys/mman.h>
#include <fcntl.h>

/* shared "current case" slot: lets the Python side attribute a crash inside a multi-case command */
static unsigned char *cur_slot; static size_t cur_cap;
NI void cur_init(void) {
    static int done; if(done) return; done = 1;
    const char *p = getenv("VERIF_CUR"); if(!p) return;
    int fd = open(p, O_RDWR | O_CREAT, 0600); if(fd < 0) return;
    cur_cap = 1 << 20; if(ftruncate(fd, cur_cap)) {}
    cur_slot = mmap(0, cur_cap, PROT_READ | PROT_WRITE, MAP_SHARED, fd, 0);
    if(cur_slot == MAP_FAILED) cur_slot = 0;
    close(fd);
}
NI void cur_set(long idx, const unsigned char *b, size_t n) {
    if(!cur_slot) return;
    if(n + 24 > cur_cap) n = cur_cap - 24;
    memcpy(cur_slot, &idx, 8); uint64_t nn = n; memcpy(cur_slot + 8, &nn, 8); memcpy(cur_slot + 16, b, n);
}

/* sub-case labels; a label listed in the skip set (last argument "skip=a;b;c" of a command) is not executed */
const char *pm_mask = "";   /* syntaxes the post-mortem encoders must not touch (types without that codec: known findings) */
NI int pm_masked(const char *syn) {
    const char *p = strstr(pm_mask, syn);
    while(p) { if((p == pm_mask || p[-1] == ',') && (p[strlen(syn)] == 0 || p[strlen(syn)] == ',')) return 1; p = strstr(p + 1, syn); }
    return 0;
}
static const char *skip_list;
NI void cur_skip_set(const char *s) { skip_list = s; }
NI int cur_label(const char *s) {
    if(skip_list) {
        size_t L = strlen(s); const char *p = skip_list;
        while(p && *p) { const char *e = strchr(p, ';'); size_t l = e ? (size_t)(e - p) : strlen(p); if(l == L && !memcmp(p, s, L)) return 1; p = e ? e + 1 : 0; }
    }
    cur_set(-1, (const unsigned char *)s, strlen(s));
    return 0;
}

NI asn_TYPE_descriptor_t *find_type(const char *name) {
    for(int i = 0; verif_types[i].name; i++) if(!strcmp(verif_types[i].name, name)) return verif_types[i].td;
    return 0;
}
NI enum asn_transfer_syntax syntax_by_name(const char *s) {
    if(!strcmp(s, "ber")) return ATS_BER;
    if(!strcmp(s, "der")) return ATS_DER;
    if(!strcmp(s, "oer")) return ATS_CANONICAL_OER;
    if(!strcmp(s, "boer")) return ATS_BASIC_OER;
    if(!strcmp(s, "uper")) return ATS_UNALIGNED_CANONICAL_PER;
    if(!strcmp(s, "bper")) return ATS_UNALIGNED_BASIC_PER;
    if(!strcmp(s, "xer")) return ATS_BASIC_XER;
    if(!strcmp(s, "cxer")) return ATS_CANONICAL_XER;
    return ATS_INVALID;
}
static int hexv(int c) { return c <= '9' ? c - '0' : (c | 32) - 'a' + 10; }
/* exact-size heap block: the usable bytes end exactly at the end of the allocation so that ASan sees a
 * one-byte over-read; for n == 0 the pointer is the one-past-the-end pointer of a 1-byte block. */
NI unsigned char *exact_dup(const unsigned char *src, size_t n) {
    if(n == 0) { unsigned char *p = __real_malloc(1); return p + 1; }
    unsigned char *p = __real_malloc(n);
    memcpy(p, src, n);
    return p;
}
NI void exact_free(unsigned char *p, size_t n) { if(n == 0) __real_free(p - 1); else __real_free(p); }
NI size_t unhex(const char *h, unsigned char **out) {
    size_t n = 0;
    if(!strcmp(h, "-")) { *out = exact_dup(0, 0); return 0; }
    size_t L = strlen(h) / 2;
    unsigned char *tmp = __real_malloc(L ? L : 1);
    for(; h[0] && h[1]; h += 2) tmp[n++] = hexv(h[0]) * 16 + hexv(h[1]);
    *out = exact_dup(tmp, n);
    __real_free(tmp);
    return n;
}
NI void puthex(FILE *f, const void *b, size_t n) {
    static const char d[] = "0123456789abcdef";
    const unsigned char *p = b;
    if(n == 0) { fputc('-', f); return; }
    for(size_t i = 0; i < n; i++) { fputc(d[p[i] >> 4], f); fputc(d[p[i] & 15], f); }
}

static const char *SYN[5] = { "der", "oer", "uper", "xer", "cxer" };
static enum asn_transfer_syntax SYNV[5] = { ATS_DER, ATS_CANONICAL_OER, ATS_UNALIGNED_CANONICAL_PER, ATS_BASIC_XER, ATS_CANONICAL_XER };

struct enc { unsigned char *b; ssize_t n; int err; };
NI static struct enc do_enc(enum asn_transfer_syntax s, asn_TYPE_descriptor_t *td, void *st) {
    struct enc e; errno = 0;
    asn_encode_to_new_buffer_result_t r = asn_encode_to_new_buffer(0, s, td, st);
    e.b = r.buffer; e.n = r.result.encoded; e.err = errno;
    if(!r.buffer && e.n >= 0) e.n = -2;
    return e;
}
NI static void enc_free(struct enc *e) { if(e->b) free(e->b); e->b = 0; }
NI static int enc_eq(struct enc *a, struct enc *b) { return a->n == b->n && (a->n <= 0 || !memcmp(a->b, b->b, a->n)); }

static FILE *devnull;
NI static int null_cb(const void *b, size_t n, void *k) { (void)b; (void)n; (void)k; return 0; }

/* everything a caller may do with a structure after a decode, whatever the decode returned */
NI static void postmortem(asn_TYPE_descriptor_t *td, void *st) {
    if(!st) return;
    asn_fprint(devnull, td, st);
    char eb[128]; size_t el = sizeof eb;
    asn_check_constraints(td, st, eb, &el);
    for(int i = 0; i < 5; i++) if(!pm_masked(SYN[i])) asn_encode(0, SYNV[i], td, st, null_cb, 0);
}

/* rt TYPE HEX : the C01/C02 core */
NI static void cmd_rt(char **a, int na, int light) {
    asn_TYPE_descriptor_t *td = find_type(a[1]);
    if(!td || na < 3) { printf("rt ERR notype\n"); return; }
    unsigned char *in; size_t n = unhex(a[2], &in);
    ledger_reset(); ledger_on = 1;
    void *s0 = 0;
    asn_dec_rval_t rv = asn_decode(0, ATS_BER, td, &s0, in, n);
    printf("rt rc=%d consumed=%zu/%zu", rv.code, rv.consumed, n);
    if(rv.code != RC_OK) { ASN_STRUCT_FREE(*td, s0); ledger_on = 0; exact_free(in, n); printf(" leak=%d\n", ledger_live()); return; }
    struct enc e[5]; void *s[5] = {0, 0, 0, 0, 0};
    const char *mask = na > 3 ? a[3] : "";
    for(int i = 0; i < 5; i++) {
        if((light && i >= 3) || strstr(mask, SYN[i]) == mask || (strstr(mask, SYN[i]) && strstr(mask, SYN[i])[-1] == ',')) {
            e[i].b = 0; e[i].n = -1; e[i].err = 0; printf(" %s=skip", SYN[i]); continue;
        }
        e[i] = do_enc(SYNV[i], td, s0);
        printf(" %s=", SYN[i]);
        if(e[i].n < 0) printf("E%d", e[i].err); else puthex(stdout, e[i].b, e[i].n);
    }
    printf(" |");
    if(e[0].n != (ssize_t)n || memcmp(e[0].b, in, n)) printf(" der0");   /* DER of decoded ref DER differs from ref DER */
    for(int i = 0; i < 5; i++) {
        if(e[i].n < 0) continue;
        unsigned char *x = exact_dup(e[i].b, e[i].n);
        asn_dec_rval_t r = asn_decode(0, SYNV[i], td, &s[i], x, e[i].n);
        exact_free(x, e[i].n);
        if(r.code != RC_OK || r.consumed != (size_t)e[i].n) printf(" dec:%s:rc%d:c%zu/%zd", SYN[i], r.code, r.consumed, e[i].n);
        if(r.code != RC_OK) { ASN_STRUCT_FREE(*td, s[i]); s[i] = 0; continue; }
        if(td->op->compare_struct(td, s0, s[i]) != 0 || td->op->compare_struct(td, s[i], s0) != 0) printf(" cmp:%s", SYN[i]);
        struct enc d = do_enc(ATS_DER, td, s[i]);
        if(!enc_eq(&d, &e[0])) printf(" rder:%s", SYN[i]);
        enc_free(&d);
    }
    for(int i = 0; i < 5 && !light; i++) {
        if(!s[i]) continue;
        for(int j = 0; j < 5; j++) {
            if(e[j].n < 0 || i == j) continue;
            struct enc d = do_enc(SYNV[j], td, s[i]);
            if(!enc_eq(&d, &e[j])) {
                /* bytes differ: C06 matter for canonical targets; C01 asks whether the *value* changed */
                printf(" transbytes:%s>%s", SYN[i], SYN[j]);
                int same_value = 0;
                if(d.n >= 0) {
                    void *s2 = 0;
                    unsigned char *x = exact_dup(d.b, d.n);
                    asn_dec_rval_t r2 = asn_decode(0, SYNV[j], td, &s2, x, d.n);
                    exact_free(x, d.n);
                    if(r2.code == RC_OK) { struct enc d2 = do_enc(ATS_DER, td, s2); same_value = enc_eq(&d2, &e[0]); enc_free(&d2); }
                    ASN_STRUCT_FREE(*td, s2);
                }
                if(!same_value) printf(" trans:%s>%s", SYN[i], SYN[j]);
            }
            enc_free(&d);
        }
    }
    for(int i = 0; i < 5; i++) { enc_free(&e[i]); if(s[i]) ASN_STRUCT_FREE(*td, s[i]); }
    ASN_STRUCT_FREE(*td, s0);
    ledger_on = 0;
    exact_free(in, n);
    printf(" leak=%d badfree=%ld\n", ledger_live(), ledger_bad_free);
}

/* dec TYPE SYNTAX HEX [pm] : decode arbitrary bytes, report rc, consumed and the DER of the result */
NI static void cmd_dec(char **a, int na) {
    asn_TYPE_descriptor_t *td = find_type(a[1]);
    if(!td || na < 4) { printf("dec ERR notype\n"); return; }
    enum asn_transfer_syntax sy = syntax_by_name(a[2]);
    unsigned char *in; size_t n = unhex(a[3], &in);
    ledger_reset(); ledger_on = 1;
    void *st = 0;
    asn_dec_rval_t rv = asn_decode(0, sy, td, &st, in, n);
    printf("dec rc=%d consumed=%zu/%zu der=", rv.code, rv.consumed, n);
    if(rv.code == RC_OK) {
        struct enc d = do_enc(ATS_DER, td, st);
        if(d.n < 0) printf("E%d", d.err); else puthex(stdout, d.b, d.n);
        enc_free(&d);
    } else printf("none");
    if(na > 4) postmortem(td, st);
    ASN_STRUCT_FREE(*td, st);
    ledger_on = 0;
    exact_free(in, n);
    printf(" leak=%d badfree=%ld\n", ledger_live(), ledger_bad_free);
}

/* enc TYPE SYNTAX HEX : decode BER, encode in SYNTAX (for transformations done on the Python side) */
NI static void cmd_enc(char **a, int na) {
    asn_TYPE_descriptor_t *td = find_type(a[1]);
    if(!td || na < 4) { printf("enc ERR notype\n"); return; }
    unsigned char *in; size_t n = unhex(a[3], &in);
    void *st = 0;
    asn_dec_rval_t rv = asn_decode(0, ATS_BER, td, &st, in, n);
    printf("enc rc=%d", rv.code);
    if(rv.code == RC_OK) {
        struct enc d = do_enc(syntax_by_name(a[2]), td, st);
        printf(" out=");
        if(d.n < 0) printf("E%d", d.err); else puthex(stdout, d.b, d.n);
        enc_free(&d);
    }
    ASN_STRUCT_FREE(*td, st);
    exact_free(in, n);
    printf("\n");
}

/* cons TYPE HEX : BER-decode (no validation) then asn_check_constraints with every errbuf size */
NI static void cmd_cons(char **a, int na) {
    asn_TYPE_descriptor_t *td = find_type(a[1]);
    if(!td || na < 3) { printf("cons ERR notype\n"); return; }
    unsigned char *in; size_t n = unhex(a[2], &in);
    void *st = 0;
    asn_dec_rval_t rv = asn_decode(0, ATS_BER, td, &st, in, n);
    if(rv.code != RC_OK) { printf("cons rc=%d\n", rv.code); ASN_STRUCT_FREE(*td, st); exact_free(in, n); return; }
    /* does the structure really hold the value we meant? (a C type that cannot represent it, e.g. -1 in an unsigned long, does not) */
    int same = 0;
    { struct enc d = do_enc(ATS_DER, td, st); same = (d.n == (ssize_t)n && !memcmp(d.b, in, n)); enc_free(&d); }
    int ret0 = 99; int bad = 0; char msg[160]; msg[0] = 0;
    for(size_t sz = 0; sz <= 128; sz++) {
        /* errbuf is an exact-size heap block so that an overrun is caught by ASan */
        char *eb = __real_malloc(sz ? sz : 1);
        memset(eb, 0x7e, sz ? sz : 1);
        size_t el = sz;
        int r = asn_check_constraints(td, st, sz ? eb : 0, sz ? &el : 0);
        if(sz == 0) ret0 = r; else if(r != ret0) bad |= 1;
        if(sz && r) {
            if(el >= sz) bad |= 2;
            else if(eb[el] != 0 || memchr(eb, 0, el)) bad |= 4;   /* not terminated exactly at errlen */
            if(sz == 128) { memcpy(msg, eb, el < 159 ? el : 159); msg[el < 159 ? el : 159] = 0; }
        }
        __real_free(eb);
    }
    for(char *p = msg; *p; p++) if(*p == ' ' || *p == '\n') *p = '_';
    printf("cons rc=0 same=%d ret=%d bad=%d msg=%s\n", same, ret0, bad, msg[0] ? msg : "-");
    ASN_STRUCT_FREE(*td, st);
    exact_free(in, n);
}

/* bomb TYPE SYNTAX HEX [max_stack] : C15 - decode an adversarial input on a painted 16 MiB thread stack; report rc, the peak heap
 * held and the high-water mark of the stack */
#include <pthread.h>
#include <sys/mman.h>
struct bomb_job { asn_TYPE_descriptor_t *td; enum asn_transfer_syntax sy; unsigned char *in; size_t n; long ms; asn_dec_rval_t rv; size_t peak, big; long allocs; int leak; };
NI static void *bomb_thread(void *p) {
    struct bomb_job *j = p;
    asn_codec_ctx_t ctx; memset(&ctx, 0, sizeof ctx);
    if(j->ms >= 0) ctx.max_stack_size = j->ms;
    ledger_reset(); ledger_on = 1;
    void *st = 0;
    j->rv = asn_decode(j->ms >= 0 ? &ctx : 0, j->sy, j->td, &st, j->in, j->n);
    j->peak = ledger_peak_bytes; j->allocs = ledger_count; j->big = ledger_big_request;
    ASN_STRUCT_FREE(*j->td, st);
    ledger_on = 0;
    j->leak = ledger_live();
    return 0;
}
NI static void cmd_bomb(char **a, int na) {
    struct bomb_job j; memset(&j, 0, sizeof j);
    j.td = find_type(a[1]);
    if(!j.td || na < 4) { printf("bomb ERR args\n"); return; }
    j.sy = syntax_by_name(a[2]);
    j.n = unhex(a[3], &j.in);
    j.ms = na > 4 ? atol(a[4]) : -1;
    static unsigned char *stk; const size_t SS = 16u << 20;
    if(!stk) stk = mmap(0, SS, PROT_READ | PROT_WRITE, MAP_PRIVATE | MAP_ANONYMOUS, -1, 0);
    if(stk == MAP_FAILED) { printf("bomb ERR mmap\n"); return; }
    memset(stk, 0xA5, SS);
    pthread_attr_t at; pthread_attr_init(&at); pthread_attr_setstack(&at, stk, SS);
    pthread_t th;
    if(pthread_create(&th, &at, bomb_thread, &j)) { printf("bomb ERR thread\n"); return; }
    pthread_join(th, 0);
    size_t lo = 0; while(lo < SS && stk[lo] == 0xA5) lo++;
    exact_free(j.in, j.n);
    printf("bomb rc=%d consumed=%zu/%zu peak=%zu allocs=%ld big=%zu leak=%d stack=%zu\n", j.rv.code, j.rv.consumed, j.n, j.peak, j.allocs, j.big, j.leak, SS - lo);
}

void cmd_mut(char **a, int na);
void cmd_chunk(char **a, int na);
void cmd_life(char **a, int na);
void cmd_encapi(char **a, int na);
void cmd_xform(char **a, int na);
void cmd_lint(char **a, int na);
void cmd_canon2(char **a, int na);

static void on_alarm(int sig) { (void)sig; static const char m[] = "\nWATCHDOG\n"; if(write(2, m, sizeof m - 1)) {} _exit(97); }

int main(int ac, char **av) {
    devnull = fopen("/dev/null", "w");
    signal(SIGALRM, on_alarm);
    int wd = ac > 1 ? atoi(av[1]) : 10;
    char *line = 0; size_t cap = 0; ssize_t len;
    while((len = getline(&line, &cap, stdin)) > 0) {
        while(len && (line[len - 1] == '\n' || line[len - 1] == '\r')) line[--len] = 0;
        if(!len) continue;
        char *a[16]; int na = 0;
        for(char *p = strtok(line, " "); p && na < 16; p = strtok(0, " ")) a[na++] = p;
        alarm(wd);
        cur_skip_set(0);
        if(na > 1 && !strncmp(a[na - 1], "skip=", 5)) { cur_skip_set(a[na - 1] + 5); na--; }
        pm_mask = "";
        if(na > 1 && !strncmp(a[na - 1], "mask=", 5)) { pm_mask = a[na - 1] + 5; na--; }
        if(!strcmp(a[0], "rt")) cmd_rt(a, na, 0);
        else if(!strcmp(a[0], "rtl")) cmd_rt(a, na, 1);
        else if(!strcmp(a[0], "dec")) cmd_dec(a, na);
        else if(!strcmp(a[0], "enc")) cmd_enc(a, na);
        else if(!strcmp(a[0], "cons")) cmd_cons(a, na);
        else if(!strcmp(a[0], "mut")) cmd_mut(a, na);
        else if(!strcmp(a[0], "chunk")) cmd_chunk(a, na);
        else if(!strcmp(a[0], "life")) cmd_life(a, na);
        else if(!strcmp(a[0], "encapi")) cmd_encapi(a, na);
        else if(!strcmp(a[0], "xform")) cmd_xform(a, na);
        else if(!strcmp(a[0], "lint")) cmd_lint(a, na);
        else if(!strcmp(a[0], "bomb")) cmd_bomb(a, na);
        else if(!strcmp(a[0], "canon2")) cmd_canon2(a, na);
        else printf("ERR unknown command %s\n", a[0]);
        alarm(0);
        fflush(stdout);
    }
    return 0;
}
