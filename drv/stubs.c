#include "drv.h"
void cmd_mut(char **a, int na){puts("mut ERR stub");}
void cmd_chunk(char **a, int na){puts("chunk ERR stub");}
void cmd_life(char **a, int na){puts("life ERR stub");}
void cmd_encapi(char **a, int na){puts("encapi ERR stub");}
void cmd_xform(char **a, int na){puts("xform ERR stub");}
void cmd_lint(char **a, int na){puts("lint ERR stub");}
