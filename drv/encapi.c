/* C07: encoder API contract under faults.
 *   encapi TYPE HEX MODE
 * MODE letters: v = valid structure (BER-decoded from HEX): size accounting, every buffer size, new buffer,
 *                   callback failure at every invocation index (and, with '2', at all pairs i<j via second failure)
 *               p = partially initialised structures: decode of every proper prefix of HEX, then every encoder
 *               z = all-zero structure (RESET of a decoded one)
 * Sub-case labels are mirrored into the shared slot so that an abort can be attributed.
 */
#include "drv.h"
#include <stdarg.h>

static const char *SYN[5] = { "der", "oer", "uper", "xer", "cxer" };
static enum asn_transfer_syntax SYNV[5] = { ATS_DER, ATS_CANONICAL_OER, ATS_UNALIGNED_CANONICAL_PER, ATS_BASIC_XER, ATS_CANONICAL_XER };

struct sink { unsigned char *b; size_t n, cap; long calls; long fail_at, fail_at2; };
NI static int sink_cb(const void *d, size_t n, void *k) {
    struct sink *s = k;
    long i = s->calls++;
    if(i == s->fail_at || i == s->fail_at2) return -1;
    if(s->n + n > s->cap) { s->cap = (s->n + n) * 2 + 64; s->b = __real_realloc(s->b, s->cap); }
    memcpy(s->b + s->n, d, n); s->n += n;
    return 0;
}

struct eres { long evals, fired, viol; int nrec; char rec[8][160]; };
NI static void eviol(struct eres *R, const char *fmt, ...) {
    R->viol++;
    if(R->nrec >= 8) return;
    va_list ap; va_start(ap, fmt); vsnprintf(R->rec[R->nrec++], 160, fmt, ap); va_end(ap);
}

/* the codec-specific public entry points (der_encode, oer_encode, uper_encode, xer_encode and their *_to_buffer forms) */
NI static asn_enc_rval_t direct_encode(int e, asn_TYPE_descriptor_t *td, void *st, asn_app_consume_bytes_f *cb, void *key) {
    switch(e) {
    case 0: return der_encode(td, st, cb, key);
#ifndef ASN_DISABLE_OER_SUPPORT
    case 1: return oer_encode(td, st, cb, key);
#endif
#ifndef ASN_DISABLE_PER_SUPPORT
    case 2: return uper_encode(td, 0, st, cb, key);
#endif
    case 3: return xer_encode(td, st, XER_F_BASIC, cb, key);
    default: return xer_encode(td, st, XER_F_CANONICAL, cb, key);
    }
}
NI static asn_enc_rval_t direct_to_buffer(int e, asn_TYPE_descriptor_t *td, void *st, void *b, size_t sz) {
    switch(e) {
    case 0: return der_encode_to_buffer(td, st, b, sz);
#ifndef ASN_DISABLE_OER_SUPPORT
    case 1: return oer_encode_to_buffer(td, 0, st, b, sz);
#endif
#ifndef ASN_DISABLE_PER_SUPPORT
    case 2: return uper_encode_to_buffer(td, 0, st, b, sz);
#endif
    default: { asn_enc_rval_t none = { -1, 0, 0 }; return none; }
    }
}

NI static void direct_checks(asn_TYPE_descriptor_t *td, void *st, int e, const struct sink *ref, struct eres *R) {
    char lab[128];
    size_t n = ref->n;
#ifdef ASN_DISABLE_OER_SUPPORT
    if(e == 1) return;
#endif
#ifdef ASN_DISABLE_PER_SUPPORT
    if(e == 2) return;
#endif
    /* size accounting and content through the codec's own entry point */
    struct sink d = { 0, 0, 0, 0, -1, -1 };
    snprintf(lab, sizeof lab, "v:%s:direct", SYN[e]); if(cur_label(lab)) return;
    asn_enc_rval_t er = direct_encode(e, td, st, sink_cb, &d);
    R->evals++;
    size_t bytes = (e == 2) ? (size_t)((er.encoded + 7) / 8) : (size_t)er.encoded;
    if(e == 2 && er.encoded == 0 && d.n == 0) {
        /* a zero-bit PER encoding: uper_encode reports 0 bits and delivers nothing; the one padding octet of X.691 10.1.3 is
         * added by the asn_encode / *_to_new_buffer front ends. Nothing to compare through the bit-counting entry points. */
        __real_free(d.b);
        return;
    }
    if(er.encoded < 0) eviol(R, "%s:direct:failed_where_asn_encode_succeeds", SYN[e]);
    else if(bytes != d.n || d.n != n || (n && memcmp(d.b, ref->b, n))) eviol(R, "%s:direct:accounting:%zd:%zu:%zu", SYN[e], er.encoded, d.n, n);
    long ncb = d.calls;
    __real_free(d.b);
    if(er.encoded < 0) return;
    /* a failing callback at every invocation index must surface as -1 */
    for(long i = 0; i < ncb; i++) {
        struct sink f = { 0, 0, 0, 0, i, -1 };
        snprintf(lab, sizeof lab, "v:%s:direct_cbfail%ld/%ld", SYN[e], i, ncb); if(cur_label(lab)) continue;
        asn_enc_rval_t r3 = direct_encode(e, td, st, sink_cb, &f);
        R->evals++; R->fired++;
        if(r3.encoded != -1) eviol(R, "%s:direct_cbfail@%ld/%ld:ret%zd", SYN[e], i, ncb, r3.encoded);
        __real_free(f.b);
    }
    /* the codec's own fixed-buffer front end: too small => -1, large enough => same bytes; never beyond the buffer (ASan) */
    if(e <= 2) for(size_t sz = 0; sz <= n + 1; sz++) {
        if(n > 300 && !(sz < 4 || sz + 3 > n || sz == n / 2)) continue;
        snprintf(lab, sizeof lab, "v:%s:direct_buf%zu", SYN[e], sz); if(cur_label(lab)) continue;
        unsigned char *b = __real_malloc(sz ? sz : 1); memset(b, 0xCD, sz ? sz : 1);
        asn_enc_rval_t r2 = direct_to_buffer(e, td, st, b, sz);
        R->evals++;
        if(sz < n) { R->fired++; if(r2.encoded != -1) eviol(R, "%s:direct_to_buffer:size%zu<%zu:ret%zd", SYN[e], sz, n, r2.encoded); }
        else if(r2.encoded != er.encoded || (n && memcmp(b, ref->b, n))) eviol(R, "%s:direct_to_buffer:size%zu:ret%zd!=%zd_or_content", SYN[e], sz, r2.encoded, er.encoded);
        __real_free(b);
    }
}

NI static void valid_checks(asn_TYPE_descriptor_t *td, void *st, int pairs, struct eres *R) {
    char lab[128];
    for(int e = 0; e < 5; e++) {
        struct sink ref = { 0, 0, 0, 0, -1, -1 };
        if(pm_masked(SYN[e])) continue;
        snprintf(lab, sizeof lab, "v:%s:count", SYN[e]); if(cur_label(lab)) continue;
        errno = 0;
        asn_enc_rval_t er = asn_encode(0, SYNV[e], td, st, sink_cb, &ref);
        R->evals++;
        if(er.encoded < 0) { if(errno == 0) eviol(R, "%s:fail_without_errno", SYN[e]); __real_free(ref.b); continue; }
        if((size_t)er.encoded != ref.n) eviol(R, "%s:size_accounting:%zd!=%zu", SYN[e], er.encoded, ref.n);
        size_t n = ref.n; long ncb = ref.calls;
        /* every buffer size (all sizes up to 300, then the boundary ones) */
        for(size_t sz = 0; sz <= n + 1; sz++) {
            if(n > 300 && !(sz < 4 || sz + 3 > n || sz == n / 2)) continue;
            snprintf(lab, sizeof lab, "v:%s:buf%zu", SYN[e], sz); if(cur_label(lab)) continue;
            unsigned char *b = 0;
            if(sz) { b = __real_malloc(sz); memset(b, 0xCD, sz); }
            asn_enc_rval_t r2 = asn_encode_to_buffer(0, SYNV[e], td, st, b, sz);
            R->evals++;
            if(sz < n) R->fired++;
            if(r2.encoded != er.encoded) eviol(R, "%s:to_buffer:size%zu:returned%zd!=%zd", SYN[e], sz, r2.encoded, er.encoded);
            else if(sz >= n && n && memcmp(b, ref.b, n)) eviol(R, "%s:to_buffer:size%zu:content_differs", SYN[e], sz);
            if(sz) __real_free(b);
        }
        /* new buffer */
        snprintf(lab, sizeof lab, "v:%s:newbuf", SYN[e]);
        if(!cur_label(lab)) {
            asn_encode_to_new_buffer_result_t nb = asn_encode_to_new_buffer(0, SYNV[e], td, st);
            R->evals++;
            if(!nb.buffer) eviol(R, "%s:new_buffer:null", SYN[e]);
            else {
                if(nb.result.encoded != er.encoded || memcmp(nb.buffer, ref.b, n)) eviol(R, "%s:new_buffer:content", SYN[e]);
                free(nb.buffer);
            }
        }
        /* callback failure at every index */
        for(long i = 0; i < ncb; i++) {
            for(long j = pairs ? i + 1 : ncb; j <= ncb; j++) {
                struct sink f = { 0, 0, 0, 0, i, j < ncb ? j : -1 };
                snprintf(lab, sizeof lab, "v:%s:cbfail%ld,%ld/%ld", SYN[e], i, j < ncb ? j : -1, ncb);
                if(cur_label(lab)) { if(!pairs) break; continue; }
                errno = 0;
                asn_enc_rval_t r3 = asn_encode(0, SYNV[e], td, st, sink_cb, &f);
                R->evals++; R->fired++;
                if(r3.encoded != -1 || errno != EIO) eviol(R, "%s:cbfail@%ld/%ld:ret%zd:errno%d", SYN[e], i, ncb, r3.encoded, errno);
                __real_free(f.b);
                if(!pairs) break;
            }
        }
        direct_checks(td, st, e, &ref, R);
        __real_free(ref.b);
    }
}

NI static void any_struct_checks(asn_TYPE_descriptor_t *td, void *st, const char *what, struct eres *R) {
    char lab[128];
    if(!st) return;
    for(int e = 0; e < 5; e++) {
        struct sink ref = { 0, 0, 0, 0, -1, -1 };
        if(pm_masked(SYN[e])) continue;
        snprintf(lab, sizeof lab, "%s:%s", what, SYN[e]); if(cur_label(lab)) continue;
        errno = 0;
        asn_enc_rval_t er = asn_encode(0, SYNV[e], td, st, sink_cb, &ref);
        R->evals++;
        if(er.encoded < 0) { R->fired++; if(er.encoded != -1 || errno == 0) eviol(R, "%s:%s:ret%zd:errno%d", what, SYN[e], er.encoded, errno); }
        else if((size_t)er.encoded != ref.n) eviol(R, "%s:%s:size_accounting:%zd!=%zu", what, SYN[e], er.encoded, ref.n);
        __real_free(ref.b);
        /* same through the two buffer front ends */
        unsigned char small[3];
        asn_enc_rval_t r2 = asn_encode_to_buffer(0, SYNV[e], td, st, small, sizeof small);
        if((r2.encoded < 0) != (er.encoded < 0)) eviol(R, "%s:%s:to_buffer_disagrees", what, SYN[e]);
        asn_encode_to_new_buffer_result_t nb = asn_encode_to_new_buffer(0, SYNV[e], td, st);
        if((nb.buffer == 0) != (er.encoded < 0)) eviol(R, "%s:%s:new_buffer_disagrees", what, SYN[e]);
        free(nb.buffer);
        R->evals += 2;
    }
}

void cmd_encapi(char **a, int na) {
    cur_init();
    asn_TYPE_descriptor_t *td = find_type(a[1]);
    if(!td || na < 4) { printf("encapi ERR args\n"); return; }
    unsigned char *in; size_t n = unhex(a[2], &in);
    const char *mode = a[3];
    struct eres R; memset(&R, 0, sizeof R);
    void *st = 0;
    asn_dec_rval_t rv = asn_decode(0, ATS_BER, td, &st, in, n);
    if(rv.code != RC_OK) { printf("encapi decode=rc%d\n", rv.code); ASN_STRUCT_FREE(*td, st); exact_free(in, n); return; }
    if(strchr(mode, 'v')) valid_checks(td, st, strchr(mode, '2') != 0, &R);
    if(strchr(mode, 'z')) { ASN_STRUCT_RESET(*td, st); any_struct_checks(td, st, "zero", &R); }
    ASN_STRUCT_FREE(*td, st);
    if(strchr(mode, 'p')) for(size_t p = 0; p < n; p++) {
        void *s2 = 0; char what[32];
        unsigned char *x = exact_dup(in, p);
        asn_decode(0, ATS_BER, td, &s2, x, p);
        exact_free(x, p);
        snprintf(what, sizeof what, "prefix%zu", p);
        any_struct_checks(td, s2, what, &R);
        ASN_STRUCT_FREE(*td, s2);
    }
    exact_free(in, n);
    printf("encapi evals=%ld fired=%ld viol=%ld", R.evals, R.fired, R.viol);
    for(int i = 0; i < R.nrec; i++) printf(" v=%s", R.rec[i]);
    printf("\n");
}
