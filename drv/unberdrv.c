/*
 * C20 batch driver: runs the *real* main() of unber(1) and enber(1) (compiled with -Dmain=unber_main /
 * -Dmain=enber_main from /repo/asn1-tools) many times in one process.  Every tool invocation happens in
 * a forked child whose fd 0/1/2 are memfds, so exit(), getopt state, sanitizer aborts, assertion
 * failures and hangs (alarm) stay inside the child and are attributable to exactly one input.
 *
 * usage:  unberdrv [watchdog-seconds]
 * stdin:  one command per line:   <modes> <hex>     modes is a string of letters:
 *                                                   u = run "unber -p -" on the input
 *                                                   e = if that printed anything, run "enber -" on its output
 *                                                   d = run "unber -" (default, pretty-printing mode) on the input
 *                                 (an empty input is written as "-")
 * stdout: one line per command:   res [us=<st> uo=<hex> ue=<hex>] [es=<st> eo=<hex> ee=<hex>] [ds=<st> dn=<size> de=<hex>]
 *         <st> is the exit status (0..255) or sig<N> when the child was killed by signal N (14 = watchdog);
 *         dn is the number of octets the default mode printed (the text itself is not returned)
 *
 * The parent never touches the stdio object `stdin` (the children inherit its buffer) and flushes
 * stdout before every fork.
 */
#define _GNU_SOURCE
#include <stdio.h>
#include <stdlib.h>
#include <string.h>
#include <unistd.h>
#include <signal.h>
#include <errno.h>
#include <fcntl.h>
#include <sys/mman.h>
#include <sys/types.h>
#include <sys/wait.h>
#include <sys/stat.h>

int unber_main(int ac, char **av);
int enber_main(int ac, char **av);

#define MAXOUT (64u << 20)

static int watchdog = 10;

static void die(const char *what) {
    fprintf(stderr, "unberdrv: %s: %s\n", what, strerror(errno));
    exit(3);
}

static int mkfd(const unsigned char *data, size_t n) {
    int fd = memfd_create("c20", 0);
    if(fd < 0) die("memfd_create");
    while(n) {
        ssize_t w = write(fd, data, n);
        if(w < 0) {
            if(errno == EINTR) continue;
            die("write");
        }
        data += w;
        n -= w;
    }
    if(lseek(fd, 0, SEEK_SET) < 0) die("lseek");
    return fd;
}

static unsigned char *slurp(int fd, size_t *np) {
    struct stat st;
    if(fstat(fd, &st)) die("fstat");
    size_t n = st.st_size;
    if(n > MAXOUT) n = MAXOUT;
    unsigned char *b = malloc(n + 1);
    if(!b) die("malloc");
    size_t got = 0;
    if(lseek(fd, 0, SEEK_SET) < 0) die("lseek");
    while(got < n) {
        ssize_t r = read(fd, b + got, n - got);
        if(r < 0) {
            if(errno == EINTR) continue;
            die("read");
        }
        if(r == 0) break;
        got += r;
    }
    *np = got;
    return b;
}

struct run {
    int status;      /* wait status */
    unsigned char *out, *err;
    size_t nout, nerr;
};

static void run_tool(int which, const unsigned char *in, size_t nin, struct run *r) {
    int ifd = mkfd(in, nin), ofd = mkfd(0, 0), efd = mkfd(0, 0);
    fflush(stdout);
    pid_t pid = fork();
    if(pid < 0) die("fork");
    if(pid == 0) {
        if(dup2(ifd, 0) < 0 || dup2(ofd, 1) < 0 || dup2(efd, 2) < 0) _exit(99);
        close(ifd);
        close(ofd);
        close(efd);
        signal(SIGALRM, SIG_DFL);
        alarm(watchdog);
        if(which == 0) {
            char *av[] = {"unber", "-p", "-", 0};
            exit(unber_main(3, av));
        } else if(which == 2) {
            char *av[] = {"unber", "-", 0};
            exit(unber_main(2, av));
        } else {
            char *av[] = {"enber", "-", 0};
            exit(enber_main(2, av));
        }
    }
    int st = 0;
    while(waitpid(pid, &st, 0) < 0) {
        if(errno != EINTR) die("waitpid");
    }
    r->status = st;
    r->out = slurp(ofd, &r->nout);
    r->err = slurp(efd, &r->nerr);
    close(ifd);
    close(ofd);
    close(efd);
}

static void put_status(const char *k, int st) {
    if(WIFSIGNALED(st))
        printf(" %s=sig%d", k, WTERMSIG(st));
    else
        printf(" %s=%d", k, WEXITSTATUS(st));
}

static void put_hex(const char *k, const unsigned char *b, size_t n) {
    static const char hx[] = "0123456789abcdef";
    printf(" %s=", k);
    if(!n) {
        putchar('-');
        return;
    }
    char *s = malloc(2 * n + 1);
    if(!s) die("malloc");
    for(size_t i = 0; i < n; i++) {
        s[2 * i] = hx[b[i] >> 4];
        s[2 * i + 1] = hx[b[i] & 15];
    }
    fwrite(s, 1, 2 * n, stdout);
    free(s);
}

static int hexval(int c) {
    if(c >= '0' && c <= '9') return c - '0';
    if(c >= 'a' && c <= 'f') return c - 'a' + 10;
    if(c >= 'A' && c <= 'F') return c - 'A' + 10;
    return -1;
}

int main(int ac, char **av) {
    if(ac > 1) watchdog = atoi(av[1]);
    if(watchdog <= 0) watchdog = 10;

    /* read all commands with read(2): stdio's stdin must stay untouched */
    size_t cap = 1 << 20, n = 0;
    char *cmd = malloc(cap);
    if(!cmd) die("malloc");
    for(;;) {
        if(n + 65536 > cap) {
            cap *= 2;
            cmd = realloc(cmd, cap);
            if(!cmd) die("realloc");
        }
        ssize_t r = read(0, cmd + n, cap - n - 1);
        if(r < 0) {
            if(errno == EINTR) continue;
            die("read stdin");
        }
        if(r == 0) break;
        n += r;
    }
    cmd[n] = 0;
    int nullfd = open("/dev/null", O_RDONLY);
    if(nullfd >= 0) {
        dup2(nullfd, 0);
        close(nullfd);
    }

    char *p = cmd, *end = cmd + n;
    while(p < end) {
        char *nl = memchr(p, '\n', end - p);
        if(!nl) nl = end;
        *nl = 0;
        char *line = p;
        p = nl + 1;
        if(!*line) continue;
        char *h = strchr(line, ' ');
        if(!h || h == line || strspn(line, "ued") != (size_t)(h - line)) {
            printf("err bad-command\n");
            continue;
        }
        *h++ = 0;
        int do_u = !!strchr(line, 'u'), do_e = !!strchr(line, 'e'), do_d = !!strchr(line, 'd');
        size_t hl = strlen(h);
        unsigned char *in = malloc(hl / 2 + 1);
        size_t nin = 0;
        int bad = 0;
        if(!(hl == 1 && h[0] == '-')) {
            if(hl & 1) bad = 1;
            for(size_t i = 0; !bad && i + 1 < hl; i += 2) {
                int a = hexval(h[i]), b = hexval(h[i + 1]);
                if(a < 0 || b < 0)
                    bad = 1;
                else
                    in[nin++] = (a << 4) | b;
            }
        }
        if(bad) {
            printf("err bad-hex\n");
            free(in);
            continue;
        }
        struct run u, e;
        printf("res");
        if(do_u) {
            run_tool(0, in, nin, &u);
            put_status("us", u.status);
            put_hex("uo", u.out, u.nout);
            put_hex("ue", u.err, u.nerr);
            if(do_e && u.nout) {
                run_tool(1, u.out, u.nout, &e);
                put_status("es", e.status);
                put_hex("eo", e.out, e.nout);
                put_hex("ee", e.err, e.nerr);
                free(e.out);
                free(e.err);
            }
            free(u.out);
            free(u.err);
        }
        if(do_d) {
            run_tool(2, in, nin, &u);
            put_status("ds", u.status);
            printf(" dn=%zu", u.nout);
            put_hex("de", u.err, u.nerr);
            free(u.out);
            free(u.err);
        }
        putchar('\n');
        free(in);
    }
    fflush(stdout);
    free(cmd);
    return 0;
}
