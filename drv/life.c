/* C14: breadth-first exploration of structure-lifecycle histories with canonical state matching and
 * k-th-allocation failure injection on every explored transition.
 *   life TYPE SYNTAX HEX DEPTH FAULTS(0|1|2)
 * Operations (relative to the encoding x of length n and the stream position c of the structure):
 *   P(p)  present x[c..p) to the decoder, c < p <= n      (the manual's continuation protocol)
 *   G(g)  present a garbage block as continuation (g = 0,1,2)
 *   Z     ASN_STRUCT_RESET         E(s)  encode in syntax s      F  ASN_STRUCT_FREE (terminal)
 * After RC_OK / RC_FAIL only Z, E, F are offered (decoding on into a finished structure is API misuse).
 */
#include "drv.h"

enum { ST_PROGRESS = 0, ST_OK = 1, ST_FAIL = 2 };
#define OP_G 100000
#define OP_Z 100010
#define OP_E 100020
#define OP_F 100030

struct lctx { asn_TYPE_descriptor_t *td; enum asn_transfer_syntax sy; const unsigned char *x; int n; void *s; int c; int status; int lastrc; int touched; };
static enum asn_transfer_syntax ESYN[5] = { ATS_DER, ATS_CANONICAL_OER, ATS_UNALIGNED_CANONICAL_PER, ATS_BASIC_XER, ATS_CANONICAL_XER };
static const unsigned char G0[8] = { 0xff, 0xff, 0xff, 0xff, 0xff, 0xff, 0xff, 0xff };
static const unsigned char G1[8] = { 0, 0, 0, 0, 0, 0, 0, 0 };
NI static int null_cb(const void *b, size_t n, void *k) { (void)b; (void)n; (void)k; return 0; }

NI static void feed(struct lctx *L, const unsigned char *b, int len) {
    unsigned char *p = exact_dup(b, len);
    asn_dec_rval_t r = asn_decode(0, L->sy, L->td, &L->s, p, len);
    exact_free(p, len);
    L->lastrc = r.code;
    L->touched = 1;
    if((int)r.consumed > len) L->lastrc = 99;
    L->c += r.consumed;
    L->status = r.code == RC_OK ? ST_OK : r.code == RC_FAIL ? ST_FAIL : ST_PROGRESS;
}

NI static void apply(struct lctx *L, int op) {
    if(op < OP_G) { feed(L, L->x + L->c, op - L->c); }
    else if(op < OP_Z) {
        int g = op - OP_G;
        if(g == 0) feed(L, G0, 8); else if(g == 1) feed(L, G1, 8);
        else { unsigned char m[8]; int len = L->n - L->c < 8 ? L->n - L->c : 8; memcpy(m, L->x + L->c, len); if(len) m[0] ^= 0x5a; feed(L, m, len); }
        if(L->status == ST_PROGRESS) L->status = ST_FAIL;   /* the stream is now corrupt: do not continue it */
    } else if(op == OP_Z) {
        if(L->s) ASN_STRUCT_RESET(*L->td, L->s);
        L->c = 0; L->status = ST_PROGRESS; L->lastrc = -1; L->touched = 0;
    } else if(op < OP_F) {
        static const char *SN[5] = { "der", "oer", "uper", "xer", "cxer" };
        if(L->s && !pm_masked(SN[op - OP_E])) { asn_enc_rval_t er = asn_encode(0, ESYN[op - OP_E], L->td, L->s, null_cb, 0); L->lastrc = er.encoded < 0 ? -2 : -3; }
    } else if(op == OP_F) {
        ASN_STRUCT_FREE(*L->td, L->s); L->s = 0;
    }
}

struct lst { int *hist; int hl; int c, status, touched; unsigned char *img; size_t il; };
static struct lst *S; static int ns, cap_s;
static unsigned char *imgbuf; static size_t imgcap = 1 << 22;

struct lres { long trans, faults, fired, viol; int nrec; char rec[6][300]; };
NI static void lviol(struct lres *R, const char *kind, const int *hist, int hl, int op, long k) {
    R->viol++;
    if(R->nrec >= 6) return;
    char *o = R->rec[R->nrec++]; int p = snprintf(o, 80, "%s:k%ld:[", kind, k);
    for(int i = 0; i < hl && p < 260; i++) p += snprintf(o + p, 12, "%d,", hist[i]);
    snprintf(o + p, 16, "%d]", op);
}

NI static void init_ctx(struct lctx *L, asn_TYPE_descriptor_t *td, enum asn_transfer_syntax sy, const unsigned char *x, int n) {
    L->td = td; L->sy = sy; L->x = x; L->n = n; L->s = 0; L->c = 0; L->status = ST_PROGRESS; L->lastrc = -1; L->touched = 0;
}

NI static int is_zero_block(void *p) {
    size_t n = ledger_size_of(p);
    if(n == (size_t)-1) return 0;
    const unsigned char *b = p;
    for(size_t k = 0; k < n; k++) if(b[k]) return 0;
    return 1;
}

void cmd_life(char **a, int na) {
    asn_TYPE_descriptor_t *td = find_type(a[1]);
    if(!td || na < 6) { printf("life ERR args\n"); return; }
    enum asn_transfer_syntax sy = syntax_by_name(a[2]);
    unsigned char *x; size_t n = unhex(a[3], &x);
    int depth = atoi(a[4]); int faults = atoi(a[5]);
    int maxstates = na > 6 ? atoi(a[6]) : 20000;
    struct lres R; memset(&R, 0, sizeof R);
    if(!imgbuf) imgbuf = __real_malloc(imgcap);
    /* reference: image and DER of a plain full decode */
    struct lctx L; init_ctx(&L, td, sy, x, (int)n);
    ledger_reset(); ledger_on = 1;
    apply(&L, (int)n);
    size_t ref_il = canon_image(imgbuf, imgcap);
    unsigned char *ref_img = __real_malloc(ref_il ? ref_il : 1); memcpy(ref_img, imgbuf, ref_il);
    int ref_status = L.status;
    asn_encode_to_new_buffer_result_t rd = asn_encode_to_new_buffer(0, ATS_DER, td, L.s);
    if(rd.buffer) ledger_forget(rd.buffer);
    apply(&L, OP_F); ledger_on = 0;
    if(ref_status != ST_OK) { printf("life oneshot=rc%d\n", L.lastrc); exact_free(x, n); __real_free(ref_img); __real_free(rd.buffer); return; }

    cap_s = 1024; S = __real_malloc(cap_s * sizeof *S); ns = 1;
    memset(&S[0], 0, sizeof S[0]);
    int capped = 0;
    int *ops = __real_malloc((n + 16) * sizeof(int));
    for(int q = 0; q < ns; q++) {
        struct lst cur = S[q];
        int nops = 0;
        /* PER decoders are not restartable: a second decode call into a structure that already saw one is API misuse */
        int per = (sy == ATS_UNALIGNED_BASIC_PER || sy == ATS_UNALIGNED_CANONICAL_PER);
        if(cur.status == ST_PROGRESS && !(per && cur.touched)) { for(int p = cur.c + 1; p <= (int)n; p++) ops[nops++] = p; for(int g = 0; g < 3; g++) ops[nops++] = OP_G + g; }
        ops[nops++] = OP_Z;
        for(int e = 0; e < 5; e++) ops[nops++] = OP_E + e;
        ops[nops++] = OP_F;
        for(int oi = 0; oi < nops; oi++) {
            int op = ops[oi];
            if(cur.hl >= depth && op != OP_F) continue;
            /* fault-free transition */
            init_ctx(&L, td, sy, x, (int)n);
            ledger_reset(); ledger_on = 1;
            for(int i = 0; i < cur.hl; i++) apply(&L, cur.hist[i]);
            long before = ledger_count;
            apply(&L, op);
            long allocs = ledger_count - before;
            R.trans++;
            if(L.lastrc == 99) lviol(&R, "overconsumed", cur.hist, cur.hl, op, 0);
            if(op == OP_Z && L.s && !(ledger_live() == 1 && is_zero_block(L.s))) lviol(&R, "reset_not_zero", cur.hist, cur.hl, op, 0);
            if(op == OP_F) {
                ledger_on = 0;
                if(ledger_live()) lviol(&R, "leak", cur.hist, cur.hl, op, 0);
                if(ledger_bad_free) lviol(&R, "badfree", cur.hist, cur.hl, op, 0);
            } else {
                /* differential: a full decode after RESET must reach the reference state */
                if(op == (int)n && cur.c == 0 && cur.hl > 0 && cur.hist[cur.hl - 1] == OP_Z) {
                    size_t il = canon_image(imgbuf, imgcap);
                    if(L.status != ST_OK || il != ref_il || memcmp(imgbuf, ref_img, il)) lviol(&R, "redecode_after_reset_differs", cur.hist, cur.hl, op, 0);
                }
                size_t il = canon_image(imgbuf, imgcap);
                int found = 0;
                for(int j = ns - 1; j >= 0; j--) if(S[j].c == L.c && S[j].status == L.status && S[j].touched == L.touched && S[j].il == il && (il == 0 || !memcmp(S[j].img, imgbuf, il))) { found = 1; break; }
                if(!found && cur.hl + 1 <= depth) {
                    if(ns >= maxstates) capped = 1;
                    else {
                        if(ns == cap_s) { cap_s *= 2; S = __real_realloc(S, cap_s * sizeof *S); cur = S[q]; }
                        struct lst *N = &S[ns++];
                        N->c = L.c; N->status = L.status; N->touched = L.touched; N->il = il; N->img = __real_malloc(il ? il : 1); memcpy(N->img, imgbuf, il);
                        N->hl = cur.hl + 1; N->hist = __real_malloc(N->hl * sizeof(int));
                        if(cur.hl) memcpy(N->hist, cur.hist, cur.hl * sizeof(int));
                        N->hist[cur.hl] = op;
                    }
                }
                apply(&L, OP_F); ledger_on = 0;
                if(ledger_live()) lviol(&R, "leak", cur.hist, cur.hl, op, 0);
                if(ledger_bad_free) lviol(&R, "badfree", cur.hist, cur.hl, op, 0);
            }
            /* the same transition with the k-th allocation of `op` failing */
            if(faults && op != OP_F) for(long k = 1; k <= allocs; k++) {
                for(int variant = 0; variant < 2; variant++) {
                    init_ctx(&L, td, sy, x, (int)n);
                    ledger_reset(); ledger_on = 1;
                    for(int i = 0; i < cur.hl; i++) apply(&L, cur.hist[i]);
                    ledger_fail_at = ledger_count + k;
                    apply(&L, op);
                    ledger_fail_at = 0;
                    R.faults++;
                    if(ledger_failed) R.fired++;
                    if(L.lastrc == 99) lviol(&R, "overconsumed_fault", cur.hist, cur.hl, op, k);
                    if(ledger_failed && op == (int)n && cur.c == 0 && cur.hl == 0 && L.status == ST_OK) {
                        /* the call claims success although an allocation failed: the value must still be right */
                        asn_encode_to_new_buffer_result_t r2 = asn_encode_to_new_buffer(0, ATS_DER, td, L.s);
                        if(r2.buffer) ledger_forget(r2.buffer);
                        if(!r2.buffer || r2.result.encoded != rd.result.encoded || memcmp(r2.buffer, rd.buffer, rd.result.encoded)) lviol(&R, "ok_after_failed_alloc_wrong_value", cur.hist, cur.hl, op, k);
                        __real_free(r2.buffer);
                    }
                    if(variant == 1) {
                        /* recover: RESET, decode again, must equal the reference */
                        apply(&L, OP_Z);
                        if(L.s && !(ledger_live() == 1 && is_zero_block(L.s))) lviol(&R, "reset_not_zero_after_fault", cur.hist, cur.hl, op, k);
                        apply(&L, (int)n);
                        size_t il = canon_image(imgbuf, imgcap);
                        if(L.status != ST_OK || il != ref_il || memcmp(imgbuf, ref_img, il)) lviol(&R, "redecode_after_fault_differs", cur.hist, cur.hl, op, k);
                    }
                    apply(&L, OP_F); ledger_on = 0;
                    if(ledger_live()) lviol(&R, "leak_after_fault", cur.hist, cur.hl, op, k);
                    if(ledger_bad_free) lviol(&R, "badfree_after_fault", cur.hist, cur.hl, op, k);
                }
            }
        }
    }
    printf("life n=%zu depth=%d states=%d transitions=%ld faults=%ld fired=%ld capped=%d viol=%ld", n, depth, ns, R.trans, R.faults, R.fired, capped, R.viol);
    for(int i = 0; i < R.nrec; i++) printf(" v=%s", R.rec[i]);
    printf("\n");
    for(int j = 0; j < ns; j++) { __real_free(S[j].img); __real_free(S[j].hist); }
    __real_free(S); __real_free(ops); __real_free(ref_img); __real_free(rd.buffer);
    exact_free(x, n);
}
