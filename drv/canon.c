/* canonical image of the tracked heap: blocks in allocation order, pointers into tracked blocks
 * rewritten as (block ordinal, offset); everything else verbatim. */
#include "drv.h"

NI size_t canon_image(unsigned char *out, size_t cap) {
    size_t o = 0;
    int nb = ledger_snapshot();
    for(int i = 0; i < nb; i++) {
        size_t n = ledger_blocks[i].n;
        if(o + n + 16 > cap) { fprintf(stderr, "canon image overflow\n"); abort(); }
        uint64_t hdr = n; memcpy(out + o, &hdr, 8); o += 8;
        size_t k = 0;
        const unsigned char *base = ledger_blocks[i].p;
        for(; k + 8 <= n; k += 8) {
            uint64_t w; memcpy(&w, base + k, 8);
            uint64_t enc = w;
            if(w > 4096) for(int j = 0; j < nb; j++) {
                uintptr_t b = (uintptr_t)ledger_blocks[j].p;
                if(w >= b && w <= b + ledger_blocks[j].n) { enc = 0xF00D000000000000ull | ((uint64_t)j << 32) | (uint64_t)(w - b); break; }
            }
            memcpy(out + o, &enc, 8); o += 8;
        }
        memcpy(out + o, base + k, n - k); o += n - k;
    }
    return o;
}
