/*
 * prim.c -- C16/C17: bounded-exhaustive comparison of the primitive-type helper APIs of the asn1c
 * runtime (INTEGER, REAL, OBJECT IDENTIFIER, GeneralizedTime/UTCTime) with an independent reference
 * written in this file.  Nothing is sampled; every space is enumerated.
 *
 *   prim quick|thorough int|strto|real|oid|time [i/n]
 *
 * "i/n" shards the large octet-string enumerations (item index mod n == i); everything that is not
 * sharded runs in shard 0 only.
 *
 * Output (stdout), one record per line:
 *   <name> evaluations=<n> distinct=<n> violations=<n>     summary of one sub-check
 *   V <name> <case> <input> :: <details>                    first few violations of each case
 *   C <name> <case> <count>                                 total number of violations per case
 *   N <name> <text>                                         recorded (not asserted) behaviour
 *   X <name> <input>                                        a sample of a real evaluated input
 *   E <text>                                                the harness' own self-check failed
 * Exit status is always 0 (a non-zero status is a crash of the library or of the harness).
 */
#define _GNU_SOURCE
#include <stdio.h>
#include <stdlib.h>
#include <string.h>
#include <stdint.h>
#include <inttypes.h>
#include <stdarg.h>
#include <errno.h>
#include <limits.h>
#include <math.h>
#include <time.h>

#include <INTEGER.h>
#include <REAL.h>
#include <OBJECT_IDENTIFIER.h>
#include <GeneralizedTime.h>
#include <UTCTime.h>

typedef __int128 i128;
typedef unsigned __int128 u128;

static int thorough;
static unsigned shard_i = 0, shard_n = 1;
static unsigned long long shard_ctr;
#define MINE() (shard_n <= 1 || (shard_ctr++ % shard_n) == shard_i)
#define FIRST_SHARD() (shard_i == 0)

/* ------------------------------------------------------------------ bookkeeping */

#define MAXCASES 128
#define SHOW_PER_CASE 4
struct cas { char name[120]; unsigned long long count; };
struct sub {
    const char *name;
    unsigned long long evals, distinct, viol;
    struct cas cases[MAXCASES];
    int ncases;
    int nsamples;
};

static void viol(struct sub *S, const char *casename, const char *input, const char *fmt, ...)
    __attribute__((format(printf, 4, 5)));
static void viol(struct sub *S, const char *casename, const char *input, const char *fmt, ...) {
    int i;
    S->viol++;
    for(i = 0; i < S->ncases; i++)
        if(strcmp(S->cases[i].name, casename) == 0) break;
    if(i == S->ncases) {
        if(S->ncases == MAXCASES) { i = MAXCASES - 1; }
        else { snprintf(S->cases[i].name, sizeof S->cases[i].name, "%s", casename); S->cases[i].count = 0; S->ncases++; }
    }
    if(S->cases[i].count++ < SHOW_PER_CASE) {
        va_list ap;
        printf("V %s %s %s :: ", S->name, casename, input);
        va_start(ap, fmt);
        vprintf(fmt, ap);
        va_end(ap);
        printf("\n");
    }
}

static void note(struct sub *S, const char *fmt, ...) __attribute__((format(printf, 2, 3)));
static void note(struct sub *S, const char *fmt, ...) {
    va_list ap;
    printf("N %s ", S->name);
    va_start(ap, fmt);
    vprintf(fmt, ap);
    va_end(ap);
    if(shard_n > 1) printf(" [shard %u of %u]", shard_i + 1, shard_n);
    printf("\n");
}

static void sample(struct sub *S, const char *input) {
    if(S->nsamples < 3) { S->nsamples++; printf("X %s %s\n", S->name, input); }
}

static void finish(struct sub *S) {
    int i;
    for(i = 0; i < S->ncases; i++)
        printf("C %s %s %llu\n", S->name, S->cases[i].name, S->cases[i].count);
    printf("%s evaluations=%llu distinct=%llu violations=%llu\n", S->name, S->evals, S->distinct, S->viol);
    fflush(stdout);
}

static void oracle_error(const char *fmt, ...) __attribute__((format(printf, 1, 2)));
static void oracle_error(const char *fmt, ...) {
    va_list ap;
    printf("E ");
    va_start(ap, fmt);
    vprintf(fmt, ap);
    va_end(ap);
    printf("\n");
}

/* rotating scratch strings */
static char *scratch(void) {
    static char bufs[8][512];
    static int k;
    k = (k + 1) & 7;
    bufs[k][0] = 0;
    return bufs[k];
}

static const char *hexs(const uint8_t *b, size_t n) {
    char *s = scratch();
    size_t i;
    if(n == 0) return "-";
    if(n > 200) n = 200;
    for(i = 0; i < n; i++) sprintf(s + 2 * i, "%02X", b[i]);
    return s;
}

static const char *dec128(i128 v) {
    char *s = scratch();
    char tmp[64];
    int n = 0, neg = v < 0;
    u128 m = neg ? (u128)0 - (u128)v : (u128)v;
    char *p = s;
    do { tmp[n++] = (char)('0' + (int)(m % 10)); m /= 10; } while(m);
    if(neg) *p++ = '-';
    while(n) *p++ = tmp[--n];
    *p = 0;
    return s;
}

/* printable rendering of a byte string that contains no blanks (so that it stays one token) */
static const char *quoted(const char *b, size_t n) {
    char *s = scratch();
    char *p = s;
    size_t i;
    *p++ = '"';
    for(i = 0; i < n && p - s < 480; i++) {
        unsigned char c = (unsigned char)b[i];
        if(c > 0x20 && c < 0x7f && c != '"' && c != '\\') *p++ = (char)c;
        else p += sprintf(p, "\\x%02X", c);
    }
    *p++ = '"';
    *p = 0;
    return s;
}

/* enumerate every string of length n over alphabet alpha[na]; the string lives in an exact-size heap
 * block so that ASan sees any read beyond it */
typedef void (*str_fn)(struct sub *S, const uint8_t *b, size_t n);
static void enum_strings(struct sub *S, const uint8_t *alpha, int na, int n, str_fn fn) {
    uint8_t *b = (uint8_t *)malloc((size_t)n);
    int idx[32];
    int p;
    if(!b) { oracle_error("malloc(%d) returned NULL", n); return; }
    for(p = 0; p < n; p++) { idx[p] = 0; b[p] = alpha[0]; }
    for(;;) {
        if(MINE()) { S->distinct++; fn(S, b, (size_t)n); }
        p = n - 1;
        while(p >= 0) {
            if(++idx[p] < na) { b[p] = alpha[idx[p]]; break; }
            idx[p] = 0; b[p] = alpha[0]; p--;
        }
        if(p < 0) break;
    }
    free(b);
}

static uint8_t ALL256[256];

/* ------------------------------------------------------------------ INTEGER */

/* value denoted by a two's-complement big-endian octet string, n >= 1, n <= 15 */
static i128 ref_value(const uint8_t *b, size_t n) {
    i128 v = (b[0] & 0x80) ? -1 : 0;
    size_t i;
    for(i = 0; i < n; i++) v = v * 256 + b[i];
    return v;
}

/* minimal two's-complement octets of v, by repeated division */
static int ref_min_octets(i128 v, uint8_t *out) {
    uint8_t tmp[20];
    int n = 0, i;
    for(;;) {
        int b = (int)(((v % 256) + 256) % 256);
        i128 rest = (v - b) / 256;
        tmp[n++] = (uint8_t)b;
        if((rest == 0 && b < 0x80) || (rest == -1 && b >= 0x80)) break;
        v = rest;
    }
    for(i = 0; i < n; i++) out[i] = tmp[n - 1 - i];
    return n;
}

enum { T_LONG, T_ULONG, T_IMAX, T_UMAX, T_N };
static const char *tname[T_N] = { "long", "ulong", "imax", "umax" };
static i128 tlo[T_N], thi[T_N];

static void int_init(void) {
    tlo[T_LONG] = LONG_MIN;   thi[T_LONG] = LONG_MAX;
    tlo[T_ULONG] = 0;         thi[T_ULONG] = (i128)ULONG_MAX;
    tlo[T_IMAX] = INTMAX_MIN; thi[T_IMAX] = INTMAX_MAX;
    tlo[T_UMAX] = 0;          thi[T_UMAX] = (i128)UINTMAX_MAX;
}

static int lib_to(int t, INTEGER_t *st, i128 v) {
    switch(t) {
    case T_LONG:  return asn_long2INTEGER(st, (long)v);
    case T_ULONG: return asn_ulong2INTEGER(st, (unsigned long)v);
    case T_IMAX:  return asn_imax2INTEGER(st, (intmax_t)v);
    default:      return asn_umax2INTEGER(st, (uintmax_t)v);
    }
}

static int lib_from(int t, const INTEGER_t *st, i128 *out) {
    int r;
    switch(t) {
    case T_LONG:  { long l = 0x5a5a5a5a; r = asn_INTEGER2long(st, &l); *out = l; return r; }
    case T_ULONG: { unsigned long l = 0x5a5a5a5a; r = asn_INTEGER2ulong(st, &l); *out = (i128)l; return r; }
    case T_IMAX:  { intmax_t l = 0x5a5a5a5a; r = asn_INTEGER2imax(st, &l); *out = l; return r; }
    default:      { uintmax_t l = 0x5a5a5a5a; r = asn_INTEGER2umax(st, &l); *out = (i128)l; return r; }
    }
}

static void int_value_check(struct sub *S, int t, i128 v) {
    INTEGER_t st;
    uint8_t ref[20];
    int nref, r;
    i128 w = 0;
    char cs[120], in[160];
    memset(&st, 0, sizeof st);
    snprintf(in, sizeof in, "%s:%s", tname[t], dec128(v));
    sample(S, in);
    errno = 0;
    r = lib_to(t, &st, v);
    S->evals++;
    if(r != 0 || !st.buf) {
        snprintf(cs, sizeof cs, "asn_%s2INTEGER:failed", tname[t]);
        viol(S, cs, in, "ret=%d errno=%d", r, errno);
        free(st.buf);
        return;
    }
    nref = ref_min_octets(v, ref);
    if(st.size < 1 || st.size > 15 || ref_value(st.buf, st.size) != v) {
        snprintf(cs, sizeof cs, "asn_%s2INTEGER:stored-octets-denote-different-value", tname[t]);
        viol(S, cs, in, "stored=%s (denotes %s) expected=%s", hexs(st.buf, st.size),
             (st.size >= 1 && st.size <= 15) ? dec128(ref_value(st.buf, st.size)) : "?", hexs(ref, nref));
    } else if((int)st.size != nref || memcmp(st.buf, ref, nref)) {
        snprintf(cs, sizeof cs, "asn_%s2INTEGER:stored-octets-not-minimal", tname[t]);
        viol(S, cs, in, "stored=%s expected=%s", hexs(st.buf, st.size), hexs(ref, nref));
    }
    errno = 0;
    r = lib_from(t, &st, &w);
    S->evals++;
    if(r != 0) {
        snprintf(cs, sizeof cs, "roundtrip-%s:asn_INTEGER2%s-failed", tname[t], tname[t]);
        viol(S, cs, in, "stored=%s ret=%d errno=%d", hexs(st.buf, st.size), r, errno);
    } else if(w != v) {
        snprintf(cs, sizeof cs, "roundtrip-%s:value-changed", tname[t]);
        viol(S, cs, in, "stored=%s read back %s", hexs(st.buf, st.size), dec128(w));
    }
    free(st.buf);
}

static int cmp_i128(const void *a, const void *b) {
    i128 x = *(const i128 *)a, y = *(const i128 *)b;
    return x < y ? -1 : x > y;
}

static void int_values(struct sub *S) {
    static i128 vals[140000];
    size_t n = 0, i, m;
    int k, d, t, sg;
    i128 lo = -((i128)1 << 63), hi = ((i128)1 << 64) - 1;
    for(k = 0; k <= 64; k++)
        for(d = -2; d <= 2; d++)
            for(sg = -1; sg <= 1; sg += 2) {
                i128 v = sg * ((i128)1 << k) + d;
                if(v >= lo && v <= hi) vals[n++] = v;
            }
    for(k = -65536; k <= 65536; k++) vals[n++] = k;
    qsort(vals, n, sizeof vals[0], cmp_i128);
    for(i = 0, m = 0; i < n; i++)
        if(m == 0 || vals[m - 1] != vals[i]) vals[m++] = vals[i];
    n = m;
    for(t = 0; t < T_N; t++)
        for(i = 0; i < n; i++)
            if(vals[i] >= tlo[t] && vals[i] <= thi[t]) {
                S->distinct++;
                int_value_check(S, t, vals[i]);
            }
}

static unsigned long long empty_stat[T_N][3];   /* ok-zero, ok-other, fail */

static void int_octets_check(struct sub *S, const uint8_t *buf, size_t n) {
    INTEGER_t st;
    i128 v = n ? ref_value(buf, n) : 0;
    int t;
    memset(&st, 0, sizeof st);
    st.buf = (uint8_t *)buf;
    st.size = n;
    if(S->nsamples < 3 && n >= 3 && buf[0] == 0xFF && buf[1] == 0x7F) sample(S, hexs(buf, n));
    for(t = 0; t < T_N; t++) {
        i128 w = 0;
        int r, e;
        char cs[120];
        errno = 0;
        r = lib_from(t, &st, &w);
        e = errno;
        S->evals++;
        if(n == 0) {   /* not a legal INTEGER content; recorded only */
            empty_stat[t][r != 0 ? 2 : (w == 0 ? 0 : 1)]++;
            continue;
        }
        if(v >= tlo[t] && v <= thi[t]) {
            if(r != 0) {
                snprintf(cs, sizeof cs, "asn_INTEGER2%s:fits->rejected", tname[t]);
                viol(S, cs, hexs(buf, n), "value %s fits, ret=%d errno=%d", dec128(v), r, e);
            } else if(w != v) {
                snprintf(cs, sizeof cs, "asn_INTEGER2%s:fits->wrong-value", tname[t]);
                viol(S, cs, hexs(buf, n), "value %s, returned %s", dec128(v), dec128(w));
            }
        } else {
            const char *why = v < tlo[t] ? (tlo[t] == 0 ? "negative" : "below-min") : "above-max";
            if(r == 0) {
                snprintf(cs, sizeof cs, "asn_INTEGER2%s:%s->accepted", tname[t], why);
                viol(S, cs, hexs(buf, n), "value %s does not fit, ret=0 returned %s", dec128(v), dec128(w));
            } else if(r != -1 || e != ERANGE) {
                snprintf(cs, sizeof cs, "asn_INTEGER2%s:%s->wrong-error", tname[t], why);
                viol(S, cs, hexs(buf, n), "value %s does not fit, ret=%d errno=%d (want -1/ERANGE)", dec128(v), r, e);
            }
        }
    }
}

static void group_int(void) {
    static struct sub SV = { "int_values" }, SO = { "int_octets" };
    static const uint8_t five[5] = { 0x00, 0x01, 0x7F, 0x80, 0xFF };
    int full = thorough ? 3 : 2, lim = thorough ? 10 : 6, n, t;
    int_init();
    if(FIRST_SHARD()) { int_values(&SV); finish(&SV); }
    for(n = 0; n <= full; n++) enum_strings(&SO, ALL256, 256, n, int_octets_check);
    for(n = full + 1; n <= lim; n++) enum_strings(&SO, five, 5, n, int_octets_check);
    for(t = 0; t < T_N; t++)
        if(empty_stat[t][0] + empty_stat[t][1] + empty_stat[t][2])
            note(&SO, "empty INTEGER (size 0, buf non-NULL) through asn_INTEGER2%s: %s", tname[t],
                 empty_stat[t][2] ? "fails" : empty_stat[t][0] ? "returns 0 with value 0" : "returns 0 with a non-zero value");
    finish(&SO);
}

/* ------------------------------------------------------------------ asn_strto*_lim */

struct sres { int code; i128 val; long endoff; };

/*
 * The documented contract (INTEGER.h + the comment above the functions in INTEGER.c):
 *  - the numeral is str..*end (no NUL needed); nothing at or beyond *end may be looked at;
 *  - empty input: ERROR_INVAL;
 *  - an optional sign; the unsigned parsers refuse '-' (ERROR_INVAL);
 *  - a sign with nothing behind it: EXPECT_MORE ("+");
 *  - no digit where one is required: ERROR_INVAL (the header's example is "+-");
 *  - digits run to *end: OK, *end unchanged; digits followed by something else: EXTRA_DATA and *end at
 *    the first character that is not part of the number; in both cases the value is stored;
 *  - the digit run denotes a value outside the target type: ERROR_RANGE.
 * *end is compared for OK and EXTRA_DATA only (the header defines it only there).
 */
static struct sres ref_strto(const char *s, long n, int is_unsigned, i128 lo, i128 hi) {
    struct sres r = { ASN_STRTOX_ERROR_INVAL, 0, -1 };
    long i = 0, start;
    int neg = 0, huge = 0;
    u128 acc = 0;
    i128 v;
    if(n <= 0) return r;
    if(s[0] == '-') {
        if(is_unsigned) return r;
        neg = 1; i = 1;
    } else if(s[0] == '+') {
        i = 1;
    }
    if(i && i >= n) { r.code = ASN_STRTOX_EXPECT_MORE; r.endoff = i; return r; }
    start = i;
    while(i < n && s[i] >= '0' && s[i] <= '9') {
        if(!huge) {
            acc = acc * 10 + (unsigned)(s[i] - '0');
            if(acc > ((u128)1 << 100)) huge = 1;
        }
        i++;
    }
    if(i == start) return r;
    v = neg ? -(i128)acc : (i128)acc;
    if(huge || v < lo || v > hi) { r.code = ASN_STRTOX_ERROR_RANGE; return r; }
    r.val = v;
    r.endoff = i;
    r.code = i < n ? ASN_STRTOX_EXTRA_DATA : ASN_STRTOX_OK;
    return r;
}

static const char *codename(int c) {
    switch(c) {
    case ASN_STRTOX_ERROR_RANGE: return "ERROR_RANGE";
    case ASN_STRTOX_ERROR_INVAL: return "ERROR_INVAL";
    case ASN_STRTOX_EXPECT_MORE: return "EXPECT_MORE";
    case ASN_STRTOX_OK: return "OK";
    case ASN_STRTOX_EXTRA_DATA: return "EXTRA_DATA";
    }
    return "UNKNOWN";
}

static const char *sfname[4] = { "asn_strtol_lim", "asn_strtoul_lim", "asn_strtoimax_lim", "asn_strtoumax_lim" };

/* set of the numerals evaluated so far (FNV-1a 64 of the bytes; only used to count distinct inputs) */
#define SEEN_SLOTS (1u << 22)
static uint64_t *seen_tab;
static int seen_before(const char *s, size_t n) {
    uint64_t h = 1469598103934665603ull;
    size_t i;
    uint32_t k;
    if(!seen_tab) seen_tab = (uint64_t *)calloc(SEEN_SLOTS, sizeof(uint64_t));
    for(i = 0; i < n; i++) { h ^= (unsigned char)s[i]; h *= 1099511628211ull; }
    h ^= (uint64_t)n << 56;
    if(h == 0) h = 1;
    for(k = (uint32_t)(h & (SEEN_SLOTS - 1)); seen_tab[k]; k = (k + 1) & (SEEN_SLOTS - 1))
        if(seen_tab[k] == h) return 1;
    seen_tab[k] = h;
    return 0;
}

/* the numeral is s[0..n); it is copied into an exact-size heap block (no terminator) */
static void strto_check(struct sub *S, const char *s, size_t n) {
    char *b = (char *)malloc(n);
    int f;
    if(!b) { oracle_error("malloc failed"); return; }
    memcpy(b, s, n);
    if(!seen_before(s, n)) S->distinct++;
    if(S->name[6] == 'b' ? (n > 24 && s[0] != '0' && s[n - 1] == 'x') : (n == 3 && s[0] == '-' && s[2] == ' ')) sample(S, quoted(s, n));
    for(f = 0; f < 4; f++) {
        const char *end = b + n;
        int uns = (f == 1 || f == 3), code;
        i128 got = 0;
        i128 lo = uns ? 0 : (f == 0 ? (i128)LONG_MIN : (i128)INTMAX_MIN);
        i128 hi = f == 0 ? (i128)LONG_MAX : f == 1 ? (i128)ULONG_MAX : f == 2 ? (i128)INTMAX_MAX : (i128)UINTMAX_MAX;
        struct sres r = ref_strto(b, (long)n, uns, lo, hi);
        char cs[120];
        switch(f) {
        case 0: { long v = 0x5a5a5a5a; code = asn_strtol_lim(b, &end, &v); got = v; break; }
        case 1: { unsigned long v = 0x5a5a5a5a; code = asn_strtoul_lim(b, &end, &v); got = (i128)v; break; }
        case 2: { intmax_t v = 0x5a5a5a5a; code = asn_strtoimax_lim(b, &end, &v); got = v; break; }
        default: { uintmax_t v = 0x5a5a5a5a; code = asn_strtoumax_lim(b, &end, &v); got = (i128)v; break; }
        }
        S->evals++;
        if(end < b || end > b + n) {
            snprintf(cs, sizeof cs, "%s:end-outside-input", sfname[f]);
            viol(S, cs, quoted(s, n), "*end moved to offset %ld of %zu", (long)(end - b), n);
            continue;
        }
        if(code != r.code) {
            snprintf(cs, sizeof cs, "%s:expected-%s-got-%s", sfname[f], codename(r.code), codename(code));
            viol(S, cs, quoted(s, n), "hex=%s value returned=%s *end offset=%ld", hexs((const uint8_t *)s, n),
                 (code == ASN_STRTOX_OK || code == ASN_STRTOX_EXTRA_DATA) ? dec128(got) : "-", (long)(end - b));
            continue;
        }
        if(code == ASN_STRTOX_OK || code == ASN_STRTOX_EXTRA_DATA) {
            if(got != r.val) {
                snprintf(cs, sizeof cs, "%s:wrong-value", sfname[f]);
                viol(S, cs, quoted(s, n), "expected %s got %s", dec128(r.val), dec128(got));
            } else if(end - b != r.endoff) {
                snprintf(cs, sizeof cs, "%s:wrong-end", sfname[f]);
                viol(S, cs, quoted(s, n), "expected *end offset %ld got %ld", r.endoff, (long)(end - b));
            }
        }
    }
    free(b);
}

static void group_strto(void) {
    static struct sub SA = { "strto_short" }, SB = { "strto_boundary" };
    static const char alpha[] = "0123456789+- ";
    static const char *prefixes[] = { "", "+", "-" };
    static const char *junk[] = { "", " ", "x", ".", "-", "+", "0", "9" };
    const int na = 13;
    int n, p, z, j, k;
    size_t nm = 0, i, e;
    u128 mags[32];
    i128 L[3];
    char idx[8], s[8];

    if(!FIRST_SHARD()) return;
    for(n = 0; n <= 4; n++) {
        memset(idx, 0, sizeof idx);
        for(;;) {
            for(p = 0; p < n; p++) s[p] = alpha[(int)idx[p]];
            strto_check(&SA, s, (size_t)n);
            p = n - 1;
            while(p >= 0) { if(++idx[p] < na) break; idx[p] = 0; p--; }
            if(p < 0) break;
        }
    }
    finish(&SA);

    /* limits: LONG_MIN, LONG_MAX, ULONG_MAX, INTMAX_MIN, INTMAX_MAX, UINTMAX_MAX (three distinct on LP64) */
    L[0] = (i128)INTMAX_MIN; L[1] = (i128)INTMAX_MAX; L[2] = (i128)UINTMAX_MAX;
    if((i128)LONG_MIN != L[0] || (i128)LONG_MAX != L[1] || (i128)ULONG_MAX != L[2])
        note(&SB, "long is narrower than intmax_t on this platform; only the intmax limits are in the boundary family");
    for(k = 0; k < 3; k++) {
        i128 c[4];
        c[0] = L[k] - 1; c[1] = L[k]; c[2] = L[k] + 1; c[3] = L[k] * 10;
        for(j = 0; j < 4; j++) {
            u128 m = c[j] < 0 ? (u128)0 - (u128)c[j] : (u128)c[j];
            for(i = 0; i < nm; i++) if(mags[i] == m) break;
            if(i == nm) mags[nm++] = m;
        }
    }
    for(i = 0; i < nm; i++)
        for(p = 0; p < 3; p++)
            for(z = 0; z <= 30; z++)
                for(j = 0; j < (int)(sizeof junk / sizeof junk[0]); j++) {
                    char text[128];
                    size_t len;
                    char *q = text;
                    q += sprintf(q, "%s", prefixes[p]);
                    for(k = 0; k < z; k++) *q++ = '0';
                    q += sprintf(q, "%s", dec128((i128)mags[i]));   /* all magnitudes are < 2^127 */
                    q += sprintf(q, "%s", junk[j]);
                    len = (size_t)(q - text);
                    for(e = 0; e <= len; e++) {
                        if(j && e + 2 < len) continue;   /* shortened end pointers of the junk variants repeat the junk-free ones */
                        strto_check(&SB, text, e);
                    }
                }
    finish(&SB);
}

/* ------------------------------------------------------------------ REAL */

static uint64_t d2bits(double d) { uint64_t b; memcpy(&b, &d, 8); return b; }
static double bits2d(uint64_t b) { double d; memcpy(&d, &b, 8); return d; }
static int bits_isnan(uint64_t b) { return ((b >> 52) & 0x7ff) == 0x7ff && (b & 0xFFFFFFFFFFFFFull) != 0; }

/* X.690 8.5 / 11.3 DER contents octets of an IEEE-754 binary64 bit pattern; integer arithmetic only */
static int ref_real(uint64_t bits, uint8_t *out) {
    int sign = (int)(bits >> 63);
    int e = (int)((bits >> 52) & 0x7ff);
    uint64_t m = bits & 0xFFFFFFFFFFFFFull;
    uint64_t M;
    int E, n = 0, ne, i;
    uint8_t eo[20];
    if(e == 0x7ff) { out[0] = m ? 0x42 : (sign ? 0x41 : 0x40); return 1; }
    if(e == 0 && m == 0) { if(sign) { out[0] = 0x43; return 1; } return 0; }
    if(e == 0) { M = m; E = -1074; }
    else { M = m | (1ull << 52); E = e - 1075; }
    while(!(M & 1)) { M >>= 1; E++; }            /* 11.3.1: mantissa odd */
    ne = ref_min_octets((i128)E, eo);            /* fewest exponent octets (1 or 2 for a double) */
    out[n++] = (uint8_t)(0x80 | (sign << 6) | (ne - 1));   /* binary, base 2, F = 0 */
    for(i = 0; i < ne; i++) out[n++] = eo[i];
    for(i = 7; i >= 0; i--)                      /* fewest mantissa octets */
        if((M >> (8 * i)) & 0xff) break;
    for(; i >= 0; i--) out[n++] = (uint8_t)(M >> (8 * i));
    return n;
}

static unsigned long long real_unterminated;

static void real_rt_check(struct sub *S, uint64_t bits) {
    REAL_t st;
    uint8_t ref[24];
    int nref = ref_real(bits, ref), r;
    double d = bits2d(bits), back = 0;
    char in[40];
    const char *cls;
    int e = (int)((bits >> 52) & 0x7ff);
    cls = e == 0x7ff ? "special" : e == 0 ? ((bits << 1) ? "subnormal" : "zero") : "normal";
    snprintf(in, sizeof in, "0x%016" PRIX64, bits);
    if(e == 1 && (bits & 0xFFFFFFFFFFFFFull) == 1) sample(S, in);
    memset(&st, 0, sizeof st);
    S->distinct++;
    errno = 0;
    r = asn_double2REAL(&st, d);
    S->evals++;
    if(r != 0 || !st.buf) {
        char cs[80];
        snprintf(cs, sizeof cs, "asn_double2REAL:%s:failed", cls);
        viol(S, cs, in, "ret=%d errno=%d", r, errno);
    } else {
        if((int)st.size != nref || memcmp(st.buf, ref, nref)) {
            char cs[80];
            snprintf(cs, sizeof cs, "asn_double2REAL:%s:octets-not-DER", cls);
            viol(S, cs, in, "(%.17g) stored=%s expected=%s", d, hexs(st.buf, st.size), hexs(ref, nref));
        }
        if(st.buf[st.size] != 0) real_unterminated++;   /* the allocation is always size+1 at least */
        errno = 0;
        r = asn_REAL2double(&st, &back);
        S->evals++;
        if(r != 0) {
            char cs[80];
            snprintf(cs, sizeof cs, "roundtrip:%s:asn_REAL2double-failed", cls);
            viol(S, cs, in, "stored=%s ret=%d errno=%d", hexs(st.buf, st.size), r, errno);
        } else if(bits_isnan(bits) ? !bits_isnan(d2bits(back)) : d2bits(back) != bits) {
            char cs[80];
            snprintf(cs, sizeof cs, "roundtrip:%s:value-changed", cls);
            viol(S, cs, in, "(%.17g) stored=%s read back 0x%016" PRIX64 " (%.17g)", d, hexs(st.buf, st.size), d2bits(back), back);
        }
    }
    free(st.buf);
    /* the decoder on the reference octets, independently of the encoder */
    {
        REAL_t rs;
        uint8_t *b = (uint8_t *)calloc(1, (size_t)nref + 1);
        memset(&rs, 0, sizeof rs);
        memcpy(b, ref, (size_t)nref);
        rs.buf = b; rs.size = (size_t)nref;
        errno = 0;
        r = asn_REAL2double(&rs, &back);
        S->evals++;
        if(r != 0) {
            char cs[80];
            snprintf(cs, sizeof cs, "asn_REAL2double:%s:DER-rejected", cls);
            viol(S, cs, hexs(ref, nref), "DER of %s; ret=%d errno=%d", in, r, errno);
        } else if(bits_isnan(bits) ? !bits_isnan(d2bits(back)) : d2bits(back) != bits) {
            char cs[80];
            snprintf(cs, sizeof cs, "asn_REAL2double:%s:DER-wrong-value", cls);
            viol(S, cs, hexs(ref, nref), "DER of %s; got 0x%016" PRIX64, in, d2bits(back));
        }
        free(b);
    }
}

static size_t mantissa_patterns(uint64_t *out) {
    size_t n = 0, i, j, m;
    const uint64_t FULL = (1ull << 52) - 1;
    int k;
    out[n++] = 0; out[n++] = 1; out[n++] = 1ull << 51; out[n++] = FULL;
    out[n++] = 0x5555555555555ull; out[n++] = 0xAAAAAAAAAAAAAull;
    if(thorough) {
        for(k = 0; k < 52; k++) out[n++] = 1ull << k;                       /* single bits */
        for(k = 1; k <= 52; k++) out[n++] = (1ull << k) - 1;                /* low-ones runs */
        for(k = 1; k <= 52; k++) out[n++] = FULL & ~((1ull << (52 - k)) - 1); /* high-ones runs */
        for(k = 1; k < 52; k += 3) out[n++] = (1ull << 51) | (1ull << k);    /* two far-apart bits */
    } else {
        static const int sb[] = { 1, 2, 3, 4, 7, 8, 15, 16, 23, 24, 31, 32, 39, 40, 47, 48, 50 };
        static const int lr[] = { 2, 3, 8, 9, 16, 32, 44, 45, 51 };
        static const int hr[] = { 2, 3, 4, 5, 8, 12, 13, 32, 51 };
        for(i = 0; i < sizeof sb / sizeof sb[0]; i++) out[n++] = 1ull << sb[i];
        for(i = 0; i < sizeof lr / sizeof lr[0]; i++) out[n++] = (1ull << lr[i]) - 1;
        for(i = 0; i < sizeof hr / sizeof hr[0]; i++) out[n++] = FULL & ~((1ull << (52 - hr[i])) - 1);
    }
    for(i = 0, m = 0; i < n; i++) {
        for(j = 0; j < m; j++) if(out[j] == out[i]) break;
        if(j == m) out[m++] = out[i];
    }
    return m;
}

static int floordiv(int a, int b) { int q = a / b; if((a % b) && ((a < 0) != (b < 0))) q--; return q; }

static void real_decode_vectors(struct sub *SD, struct sub *SL) {
    static const struct { const char *name; uint64_t M; int P; uint64_t bits; } vals[4] = {
        { "1", 1, 0, 0x3FF0000000000000ull }, { "3", 3, 0, 0x4008000000000000ull },
        { "2^-1074", 1, -1074, 1ull }, { "max", (1ull << 53) - 1, 971, 0x7FEFFFFFFFFFFFFFull } };
    static const int bbits[3] = { 1, 3, 4 };
    int vi, sign, bi, F, rexp, rman, form;
    unsigned long long lf_redundant[3] = { 0, 0, 0 };
    for(vi = 0; vi < 4; vi++)
    for(sign = 0; sign < 2; sign++)
    for(bi = 0; bi < 3; bi++)
    for(F = 0; F < 4; F++)
    for(rexp = 0; rexp < 3; rexp++)
    for(rman = 0; rman < 3; rman++)
    for(form = 0; form < 2; form++) {
        int bb = bbits[bi];
        int E = floordiv(vals[vi].P - F, bb);
        int sh = (vals[vi].P - F) - bb * E;
        uint64_t N = vals[vi].M << sh;
        uint64_t want = vals[vi].bits | ((uint64_t)sign << 63);
        uint8_t eo[8], enc[40], *heap;
        int nmin = ref_min_octets((i128)E, eo), ne = nmin + rexp, n = 0, i, r;
        struct sub *S = form ? SL : SD;
        REAL_t st;
        double got = 0;
        char cs[120], desc[160];
        if(form == 0 && ne > 3) continue;          /* the short forms carry 1..3 exponent octets */
        enc[n++] = (uint8_t)(0x80 | (sign << 6) | (bi << 4) | (F << 2) | (form ? 3 : ne - 1));
        if(form) enc[n++] = (uint8_t)ne;
        for(i = 0; i < rexp; i++) enc[n++] = E < 0 ? 0xFF : 0x00;
        for(i = 0; i < nmin; i++) enc[n++] = eo[i];
        for(i = 0; i < rman; i++) enc[n++] = 0;
        for(i = 7; i >= 0; i--) if((N >> (8 * i)) & 0xff) break;
        for(; i >= 0; i--) enc[n++] = (uint8_t)(N >> (8 * i));
        heap = (uint8_t *)calloc(1, (size_t)n + 1);   /* contract: contents are followed by a NUL */
        memcpy(heap, enc, (size_t)n);
        memset(&st, 0, sizeof st);
        st.buf = heap; st.size = (size_t)n;
        snprintf(desc, sizeof desc, "%s%s base=%d F=%d E=%d N=0x%" PRIX64 " redundant-exp-octets=%d redundant-mantissa-octets=%d %s",
                 sign ? "-" : "+", vals[vi].name, 1 << bb, F, E, N, rexp, rman, form ? "exponent-length-form-11" : "short-form");
        if(vi == 2 && bi == 1 && F == 1 && rexp == 0 && rman == 0) sample(S, hexs(enc, n));
        S->distinct++;
        errno = 0;
        r = asn_REAL2double(&st, &got);
        S->evals++;
        if(form && rexp) {
            /* 8.5.7.4 d) forbids nine equal leading exponent bits in form 11: recorded, not asserted */
            lf_redundant[r != 0 ? 0 : (d2bits(got) == want ? 1 : 2)]++;
        } else if(r != 0) {
            snprintf(cs, sizeof cs, "asn_REAL2double:%s:rejected", form ? "form11" : (rexp ? "redundant-exponent" : "minimal-exponent"));
            viol(S, cs, hexs(enc, n), "%s; ret=%d errno=%d", desc, r, errno);
        } else if(d2bits(got) != want) {
            snprintf(cs, sizeof cs, "asn_REAL2double:%s:wrong-value", form ? "form11" : (rexp ? "redundant-exponent" : "minimal-exponent"));
            viol(S, cs, hexs(enc, n), "%s; expected 0x%016" PRIX64 " got 0x%016" PRIX64 " (%.17g)", desc, want, d2bits(got), got);
        }
        free(heap);
    }
    note(SL, "form 11 with redundant leading exponent octets (forbidden by X.690 8.5.7.4 d): rejected=%llu right-value=%llu other-value=%llu",
         lf_redundant[0], lf_redundant[1], lf_redundant[2]);
}

static void real_decimal(struct sub *S) {
    static const struct { int nr; const char *text; double want; } ok[] = {
        { 1, "1", 1.0 }, { 1, "+3", 3.0 }, { 1, "-1", -1.0 }, { 1, " 12", 12.0 }, { 1, "0", 0.0 }, { 1, "007", 7.0 },
        { 1, "9007199254740993", 9007199254740992.0 }, { 1, "   -65536", -65536.0 },
        { 2, "1.5", 1.5 }, { 2, "-0.25", -0.25 }, { 2, "3.", 3.0 }, { 2, ".5", 0.5 }, { 2, "1,5", 1.5 }, { 2, "+0,125", 0.125 },
        { 3, "15E-1", 1.5 }, { 3, "1.E0", 1.0 }, { 3, "3.0e+0", 3.0 }, { 3, "-25.E-2", -0.25 }, { 3, "1,5E0", 1.5 },
        { 3, "5.E-324", 4.9406564584124654e-324 }, { 3, "17976931348623157.E292", 1.7976931348623157e308 } };
    static const char *bad[] = { "", " ", "+", ".", "1 ", "1e", "abc", "0x10", "inf", "nan", "1.5.2", "--1", "1e999" };
    size_t i;
    for(i = 0; i < sizeof ok / sizeof ok[0]; i++) {
        size_t n = 1 + strlen(ok[i].text);
        uint8_t *b = (uint8_t *)calloc(1, n + 1);
        REAL_t st;
        double got = 0;
        int r;
        b[0] = (uint8_t)ok[i].nr;
        memcpy(b + 1, ok[i].text, n - 1);
        memset(&st, 0, sizeof st);
        st.buf = b; st.size = n;
        S->distinct++;
        errno = 0;
        r = asn_REAL2double(&st, &got);
        S->evals++;
        if(i == 12) sample(S, hexs(b, n));
        if(r != 0)
            viol(S, "asn_REAL2double:ISO6093:rejected", hexs(b, n), "NR%d %s ret=%d errno=%d", ok[i].nr, quoted(ok[i].text, n - 1), r, errno);
        else if(d2bits(got) != d2bits(ok[i].want))
            viol(S, "asn_REAL2double:ISO6093:wrong-value", hexs(b, n), "NR%d %s expected %.17g got %.17g", ok[i].nr, quoted(ok[i].text, n - 1), ok[i].want, got);
        free(b);
    }
    for(i = 0; i < sizeof bad / sizeof bad[0]; i++) {
        size_t n = 1 + strlen(bad[i]);
        uint8_t *b = (uint8_t *)calloc(1, n + 1);
        REAL_t st;
        double got = 0;
        int r;
        b[0] = 1;
        memcpy(b + 1, bad[i], n - 1);
        memset(&st, 0, sizeof st);
        st.buf = b; st.size = n;
        errno = 0;
        r = asn_REAL2double(&st, &got);
        S->evals++;
        if(r == 0) note(S, "text that is not an ISO 6093 numeral is accepted: %s -> %.17g", quoted(bad[i], n - 1), got);
        free(b);
    }
}

static void group_real(void) {
    static struct sub SR = { "real_roundtrip" }, SD = { "real_decode" }, SL = { "real_decode_form11" }, SN = { "real_decimal" };
    uint64_t pats[256];
    size_t np, i;
    int sign, e;
    if(!FIRST_SHARD()) return;
    np = mantissa_patterns(pats);
    note(&SR, "mantissa patterns: %zu", np);
    for(sign = 0; sign < 2; sign++)
        for(e = 0; e < 2048; e++)
            for(i = 0; i < np; i++)
                real_rt_check(&SR, ((uint64_t)sign << 63) | ((uint64_t)e << 52) | pats[i]);
    if(real_unterminated)
        note(&SR, "asn_double2REAL left buf[size] != 0 in %llu results (REAL.c says asn_double2REAL guarantees the terminator; "
                  "it writes it to the local scratch array instead of the new buffer)", real_unterminated);
    finish(&SR);
    real_decode_vectors(&SD, &SL);
    finish(&SD);
    finish(&SL);
    real_decimal(&SN);
    finish(&SN);
}

/* ------------------------------------------------------------------ OBJECT IDENTIFIER */

/* X.690 8.19: base-128, most significant group first, bit 8 set on all but the last octet, fewest octets */
static int ref_subid(uint64_t v, uint8_t *out) {
    uint8_t tmp[12];
    int n = 0, i;
    do { tmp[n++] = (uint8_t)(v % 128); v /= 128; } while(v);
    for(i = 0; i < n; i++) out[i] = (uint8_t)(tmp[n - 1 - i] | (i < n - 1 ? 0x80 : 0));
    return n;
}

static int ref_oid_encode(const uint32_t *arcs, size_t n, uint8_t *out) {
    int len = 0;
    size_t i;
    len += ref_subid((uint64_t)arcs[0] * 40 + arcs[1], out);
    for(i = 2; i < n; i++) len += ref_subid(arcs[i], out + len);
    return len;
}

static const char *arcs_text(const uint32_t *arcs, size_t n) {
    char *s = scratch(), *p = s;
    size_t i;
    for(i = 0; i < n && p - s < 440; i++) p += sprintf(p, "%s%" PRIu32, i ? "." : "", arcs[i]);
    if(i < n) sprintf(p, "...(%zu)", n);
    return s;
}

/* is {a0 a1} a first pair the library can hold? (32-bit first subidentifier) */
static int first_pair_ok(uint32_t a0, uint32_t a1) {
    if(a0 <= 1) return a1 <= 39;
    if(a0 == 2) return (uint64_t)a1 + 80 <= 0xFFFFFFFFull;
    return 0;
}

static void oid_vector_check(struct sub *S, const uint32_t *arcs, size_t n, int slots_variants) {
    OBJECT_IDENTIFIER_t st;
    uint8_t ref[400];
    int nref, r;
    char in[1024], *inp = in;
    size_t ii;
    for(ii = 0; ii < n; ii++) inp += sprintf(inp, "%s%" PRIu32, ii ? "." : "", arcs[ii]);
    memset(&st, 0, sizeof st);
    S->distinct++;
    if(n == 4 && arcs[1] == 39 && arcs[2] == 16384) sample(S, in);
    errno = 0;
    r = OBJECT_IDENTIFIER_set_arcs(&st, arcs, n);
    S->evals++;
    if(!first_pair_ok(arcs[0], arcs[1])) {
        if(r == 0)
            viol(S, "OBJECT_IDENTIFIER_set_arcs:illegal-first-pair-accepted", in, "stored=%s", hexs(st.buf, st.size));
        else if(r != -1 || errno != ERANGE)
            viol(S, "OBJECT_IDENTIFIER_set_arcs:illegal-first-pair-wrong-error", in, "ret=%d errno=%d (want -1/ERANGE)", r, errno);
        free(st.buf);
        return;
    }
    if(r != 0 || !st.buf) {
        viol(S, "OBJECT_IDENTIFIER_set_arcs:failed", in, "ret=%d errno=%d", r, errno);
        free(st.buf);
        return;
    }
    nref = ref_oid_encode(arcs, n, ref);
    if((int)st.size != nref || memcmp(st.buf, ref, (size_t)nref))
        viol(S, "OBJECT_IDENTIFIER_set_arcs:octets-differ", in, "stored=%s expected=%s", hexs(st.buf, st.size), hexs(ref, (size_t)nref));
    free(st.buf);

    /* get_arcs on the reference octets (exact-size block), output array of exactly `slots` cells */
    {
        uint8_t *b = (uint8_t *)malloc((size_t)nref);
        size_t variants[6], nv = 0, k;
        memcpy(b, ref, (size_t)nref);
        st.buf = b; st.size = (size_t)nref;
        variants[nv++] = n;
        if(slots_variants) { variants[nv++] = 0; variants[nv++] = 1; variants[nv++] = 2; variants[nv++] = n - 1; variants[nv++] = n + 1; }
        for(k = 0; k < nv; k++) {
            size_t slots = variants[k], i;
            uint32_t *out = (uint32_t *)malloc(slots * sizeof(uint32_t));
            ssize_t cnt;
            for(i = 0; i < slots; i++) out[i] = 0xDEADBEEF;
            errno = 0;
            cnt = OBJECT_IDENTIFIER_get_arcs(&st, out, slots);
            S->evals++;
            if(cnt != (ssize_t)n) {
                viol(S, "OBJECT_IDENTIFIER_get_arcs:wrong-count", in, "octets=%s slots=%zu returned %zd errno=%d", hexs(ref, (size_t)nref), slots, cnt, errno);
            } else {
                for(i = 0; i < slots && i < n; i++)
                    if(out[i] != arcs[i]) {
                        viol(S, "OBJECT_IDENTIFIER_get_arcs:wrong-arc", in, "octets=%s slots=%zu arc[%zu]=%" PRIu32, hexs(ref, (size_t)nref), slots, i, out[i]);
                        break;
                    }
                for(i = n; i < slots; i++)
                    if(out[i] != 0xDEADBEEF) {
                        viol(S, "OBJECT_IDENTIFIER_get_arcs:wrote-beyond-count", in, "slots=%zu cell %zu modified", slots, i);
                        break;
                    }
            }
            free(out);
        }
        free(b);
    }

    /* parse_arcs of the dotted text: NUL-terminated with length -1, and unterminated exact block with a length */
    {
        size_t tl = strlen(in), i;
        int mode;
        for(mode = 0; mode < 2; mode++) {
            char *t = (char *)malloc(tl + (mode ? 0 : 1));
            uint32_t *out = (uint32_t *)malloc(n * sizeof(uint32_t));
            const char *end = 0;
            ssize_t cnt;
            memcpy(t, in, tl + (mode ? 0 : 1));
            for(i = 0; i < n; i++) out[i] = 0xDEADBEEF;
            errno = 0;
            cnt = OBJECT_IDENTIFIER_parse_arcs(t, mode ? (ssize_t)tl : -1, out, n, &end);
            S->evals++;
            if(cnt != (ssize_t)n) {
                viol(S, "OBJECT_IDENTIFIER_parse_arcs:wrong-count", in, "mode=%s returned %zd errno=%d", mode ? "length" : "strlen", cnt, errno);
            } else {
                for(i = 0; i < n; i++)
                    if(out[i] != arcs[i]) {
                        viol(S, "OBJECT_IDENTIFIER_parse_arcs:wrong-arc", in, "mode=%s arc[%zu]=%" PRIu32, mode ? "length" : "strlen", i, out[i]);
                        break;
                    }
                if(end != t + tl)
                    viol(S, "OBJECT_IDENTIFIER_parse_arcs:wrong-end", in, "mode=%s end offset %ld of %zu", mode ? "length" : "strlen", (long)(end - t), tl);
            }
            free(out);
            free(t);
        }
    }
}

static void oid_vectors(struct sub *S) {
    static const uint32_t second01[] = { 0, 1, 38, 39, 40 };
    static const uint32_t second2[] = { 0, 1, 38, 39, 40, 47, 48, 127, 128, 0xFFFFFFFFu - 80, 0xFFFFFFFFu - 79, 0xFFFFFFFFu };
    static const uint32_t more[] = { 0, 1, 127, 128, 16383, 16384, (1u << 21) - 1, 1u << 21, (1u << 28) - 1, 1u << 28, 0xFFFFFFFFu };
    const size_t nm = sizeof more / sizeof more[0];
    uint32_t a[64];
    uint32_t first;
    size_t si, i, j, len;
    for(first = 0; first <= 3; first++) {
        const uint32_t *sec = first == 2 ? second2 : second01;
        size_t ns = first == 2 ? sizeof second2 / sizeof second2[0] : sizeof second01 / sizeof second01[0];
        for(si = 0; si < ns; si++) {
            a[0] = first; a[1] = sec[si];
            oid_vector_check(S, a, 2, 1);
            if(!first_pair_ok(a[0], a[1])) continue;
            for(i = 0; i < nm; i++) {
                a[2] = more[i];
                oid_vector_check(S, a, 3, 0);
                for(j = 0; j < nm; j++) {
                    a[3] = more[j];
                    oid_vector_check(S, a, 4, (i + j) % 7 == 0);
                }
            }
        }
    }
    /* long vectors around the sizes of typical caller-side arrays, with short/long output arrays */
    {
        static const size_t lens[] = { 5, 8, 9, 15, 16, 17, 18, 31, 32, 33, 64 };
        for(i = 0; i < sizeof lens / sizeof lens[0]; i++) {
            len = lens[i];
            a[0] = 2; a[1] = 999;
            for(j = 2; j < len; j++) a[j] = more[(j * 5 + i) % nm];
            oid_vector_check(S, a, len, 1);
        }
    }
    /* text with an arc just beyond 32 bits must be refused */
    {
        static const char *bad[] = { "1.2.4294967296", "2.4294967296", "1.2.99999999999999999999", "4294967296.1" };
        for(i = 0; i < sizeof bad / sizeof bad[0]; i++) {
            uint32_t out[4];
            ssize_t cnt;
            errno = 0;
            cnt = OBJECT_IDENTIFIER_parse_arcs(bad[i], -1, out, 4, 0);
            S->evals++; S->distinct++;
            if(cnt != -1)
                viol(S, "OBJECT_IDENTIFIER_parse_arcs:arc-over-32-bits-accepted", bad[i], "returned %zd", cnt);
        }
    }
}

static unsigned long long oid_nonmin[3];   /* rejected, accepted with the reference arcs, (violations are counted as such) */
static unsigned long long oid_empty[2];

static void oid_octets_check(struct sub *S, const uint8_t *buf, size_t n) {
    OBJECT_IDENTIFIER_t st;
    uint32_t want[16], got[16];
    size_t nw = 0, i;
    int truncated = 0, overflow = 0, nonminimal = 0, first = 1;
    uint64_t acc = 0;
    int in_sub = 0;
    ssize_t cnt;
    memset(&st, 0, sizeof st);
    st.buf = (uint8_t *)buf; st.size = n;
    for(i = 0; i < 16; i++) got[i] = 0xDEADBEEF;
    /* reference parse */
    for(i = 0; i < n; i++) {
        if(!in_sub && buf[i] == 0x80) nonminimal = 1;   /* 8.19.2: the leading octet shall not be 0x80 */
        in_sub = 1;
        if(!overflow) {
            acc = (acc << 7) | (buf[i] & 0x7f);
            if(acc > 0xFFFFFFFFull) overflow = 1;
        }
        if(!(buf[i] & 0x80)) {
            if(!overflow) {
                if(first) {
                    if(acc >= 80) { want[nw++] = 2; want[nw++] = (uint32_t)(acc - 80); }
                    else if(acc >= 40) { want[nw++] = 1; want[nw++] = (uint32_t)(acc - 40); }
                    else { want[nw++] = 0; want[nw++] = (uint32_t)acc; }
                } else {
                    want[nw++] = (uint32_t)acc;
                }
            }
            first = 0; acc = 0; in_sub = 0;
        }
    }
    if(in_sub) truncated = 1;
    if(S->nsamples < 3 && n == 3 && buf[0] == 0x2B && buf[1] == 0x81) sample(S, hexs(buf, n));
    errno = 0;
    cnt = OBJECT_IDENTIFIER_get_arcs(&st, got, 16);
    S->evals++;
    if(n == 0) { oid_empty[cnt < 0 ? 0 : 1]++; return; }
    if(overflow) {
        if(cnt >= 0)
            viol(S, "OBJECT_IDENTIFIER_get_arcs:subidentifier-over-32-bits-accepted", hexs(buf, n),
                 "returned %zd arcs: %s", cnt, arcs_text(got, (size_t)(cnt > 16 ? 16 : cnt)));
        return;
    }
    if(truncated) {
        if(cnt >= 0)
            viol(S, "OBJECT_IDENTIFIER_get_arcs:unterminated-subidentifier-accepted", hexs(buf, n), "returned %zd arcs", cnt);
        return;
    }
    if(nonminimal && cnt < 0) { oid_nonmin[0]++; return; }
    if(cnt < 0) {
        viol(S, "OBJECT_IDENTIFIER_get_arcs:well-formed-rejected", hexs(buf, n), "expected %s; errno=%d", arcs_text(want, nw), errno);
        return;
    }
    if((size_t)cnt != nw || memcmp(got, want, nw * sizeof(uint32_t))) {
        viol(S, nonminimal ? "OBJECT_IDENTIFIER_get_arcs:non-minimal:wrong-arcs" : "OBJECT_IDENTIFIER_get_arcs:wrong-arcs", hexs(buf, n),
             "expected %s got %zd arcs %s", arcs_text(want, nw), cnt, arcs_text(got, (size_t)(cnt > 16 ? 16 : cnt)));
        return;
    }
    if(nonminimal) oid_nonmin[1]++;
}

static void group_oid(void) {
    static struct sub SV = { "oid_vectors" }, SO = { "oid_octets" };
    static const uint8_t six[6] = { 0x00, 0x01, 0x7F, 0x80, 0x81, 0xFF };
    int full = thorough ? 3 : 2, lim = thorough ? 8 : 5, n;
    if(FIRST_SHARD()) { oid_vectors(&SV); finish(&SV); }
    for(n = 0; n <= full; n++) enum_strings(&SO, ALL256, 256, n, oid_octets_check);
    for(n = full + 1; n <= lim; n++) enum_strings(&SO, six, 6, n, oid_octets_check);
    note(&SO, "sub-identifiers with a leading 0x80 octet (forbidden by X.690 8.19.2, not mentioned in the header): rejected=%llu accepted-with-the-padded-value=%llu",
         oid_nonmin[0], oid_nonmin[1]);
    if(oid_empty[0] + oid_empty[1]) note(&SO, "empty contents: %s", oid_empty[0] ? "rejected" : "accepted");
    finish(&SO);
}

/* ------------------------------------------------------------------ GeneralizedTime / UTCTime */

/* proleptic Gregorian calendar <-> day number (days since 1970-01-01), integer arithmetic only */
static int64_t days_from_civil(int64_t y, unsigned m, unsigned d) {
    int64_t era;
    unsigned yoe, doy, doe;
    y -= m <= 2;
    era = (y >= 0 ? y : y - 399) / 400;
    yoe = (unsigned)(y - era * 400);
    doy = (153 * (m > 2 ? m - 3 : m + 9) + 2) / 5 + d - 1;
    doe = yoe * 365 + yoe / 4 - yoe / 100 + doy;
    return era * 146097 + (int64_t)doe - 719468;
}

static void civil_from_days(int64_t z, int64_t *y, unsigned *m, unsigned *d) {
    int64_t era, yy;
    unsigned doe, yoe, doy, mp;
    z += 719468;
    era = (z >= 0 ? z : z - 146096) / 146097;
    doe = (unsigned)(z - era * 146097);
    yoe = (doe - doe / 1460 + doe / 36524 - doe / 146096) / 365;
    yy = (int64_t)yoe + era * 400;
    doy = doe - (365 * yoe + yoe / 4 - yoe / 100);
    mp = (5 * doy + 2) / 153;
    *d = doy - (153 * mp + 2) / 5 + 1;
    *m = mp < 10 ? mp + 3 : mp - 9;
    *y = yy + (*m <= 2);
}

struct civil { int64_t y; unsigned mo, d, h, mi, s; };

static struct civil civil_of(int64_t t) {
    struct civil c;
    int64_t days = t >= 0 ? t / 86400 : -((-t + 86399) / 86400);
    int64_t rem = t - days * 86400;
    civil_from_days(days, &c.y, &c.mo, &c.d);
    c.h = (unsigned)(rem / 3600); c.mi = (unsigned)(rem % 3600 / 60); c.s = (unsigned)(rem % 60);
    return c;
}

static const char *zones[] = { "UTC", "America/New_York", "Europe/London", "Asia/Kolkata", "Australia/Lord_Howe", "Pacific/Chatham", "XYZ-3:30" };
#define NZONES (sizeof zones / sizeof zones[0])
static const char *curzone;

static const int pow10i[] = { 1, 10, 100, 1000, 10000, 100000, 1000000, 10000000 };

static int tm_matches(const struct tm *tm, const struct civil *c) {
    return tm->tm_year + 1900 == c->y && tm->tm_mon + 1 == (int)c->mo && tm->tm_mday == (int)c->d
        && tm->tm_hour == (int)c->h && tm->tm_min == (int)c->mi && tm->tm_sec == (int)c->s;
}


/* one instant under the current TZ; ut != 0: UTCTime */
static void time_check(struct sub *S, int64_t t, int ut, int with_frac) {
    struct tm tm, tmo;
    time_t tt = (time_t)t;
    struct civil c = civil_of(t);
    char ref[64], in[128];
    GeneralizedTime_t g, r;
    time_t back;
    int reflen;
    const char *fam = ut ? "UT" : "GT";

    if(!localtime_r(&tt, &tm)) return;
    {   /* self-check of the reference against libc's gmtime */
        struct tm gm;
        if(gmtime_r(&tt, &gm) && !tm_matches(&gm, &c))
            oracle_error("civil_of(%lld) disagrees with gmtime_r", (long long)t);
    }
    snprintf(in, sizeof in, "TZ=%s,t=%lld", curzone, (long long)t);
    if(ut) reflen = snprintf(ref, sizeof ref, "%02d%02u%02u%02u%02u%02uZ", (int)(c.y % 100), c.mo, c.d, c.h, c.mi, c.s);
    else reflen = snprintf(ref, sizeof ref, "%04d%02u%02u%02u%02u%02uZ", (int)c.y, c.mo, c.d, c.h, c.mi, c.s);
    S->distinct++;
    if(t == 951782400 + 45296 && !ut) sample(S, in);
    if(t == 951782400 + 45296 && ut) sample(S, in);

    /* struct tm (local) -> text, forced GMT */
    memset(&g, 0, sizeof g);
    errno = 0;
    S->evals++;
    if(!(ut ? asn_time2UT(&g, &tm, 1) : asn_time2GT(&g, &tm, 1))) {
        char cs[80]; snprintf(cs, sizeof cs, "asn_time2%s:failed", fam);
        viol(S, cs, in, "errno=%d expected text %s", errno, ref);
    } else {
        if((int)g.size != reflen || memcmp(g.buf, ref, (size_t)reflen)) {
            char cs[80]; snprintf(cs, sizeof cs, "asn_time2%s:wrong-text", fam);
            viol(S, cs, in, "local tm %04d-%02d-%02d %02d:%02d:%02d gmtoff=%ld; got %s expected %s", tm.tm_year + 1900, tm.tm_mon + 1,
                 tm.tm_mday, tm.tm_hour, tm.tm_min, tm.tm_sec, (long)tm.tm_gmtoff, quoted((char *)g.buf, g.size), ref);
        }
        free(g.buf);
    }

    /* reference text -> time_t (exact-size block + NUL, as the decoders produce it) */
    memset(&r, 0, sizeof r);
    r.buf = (uint8_t *)malloc((size_t)reflen + 1);
    memcpy(r.buf, ref, (size_t)reflen + 1);
    r.size = (size_t)reflen;
    memset(&tmo, 0, sizeof tmo);
    errno = 0;
    back = ut ? asn_UT2time(&r, &tmo, 1) : asn_GT2time(&r, &tmo, 1);
    S->evals++;
    if(t == -1 && back == -1 && errno == EINVAL) {
        /* "On error returns -1 and errno set to EINVAL": the caller is told that a valid time is malformed */
        char cs[80]; snprintf(cs, sizeof cs, "asn_%s2time:time_t-minus-1-reported-as-EINVAL", fam);
        viol(S, cs, in, "text %s returned -1 with errno=EINVAL, tm not filled", ref);
    } else if(back != tt) {
        char cs[80];
        int y = (int)c.y;
        if(ut && y >= 1950 && y <= 1959 && back != -1) snprintf(cs, sizeof cs, "asn_UT2time:years-1950-1959-read-as-2050-2059");
        else snprintf(cs, sizeof cs, "asn_%s2time:wrong-time_t", fam);
        viol(S, cs, in, "text %s returned %lld errno=%d", ref, (long long)back, errno);
    } else if(!(t == -1) && !ut && !tm_matches(&tmo, &c)) {
        viol(S, "asn_GT2time:as_gmt-tm-wrong", in, "text %s tm=%04d-%02d-%02d %02d:%02d:%02d", ref, tmo.tm_year + 1900, tmo.tm_mon + 1,
             tmo.tm_mday, tmo.tm_hour, tmo.tm_min, tmo.tm_sec);
    }
    if(!ut) {   /* as_gmt = 0 : local broken-down time must be what localtime gives */
        memset(&tmo, 0, sizeof tmo);
        back = asn_GT2time(&r, &tmo, 0);
        S->evals++;
        if(back == tt && t != -1 && (tmo.tm_year != tm.tm_year || tmo.tm_mon != tm.tm_mon || tmo.tm_mday != tm.tm_mday
                      || tmo.tm_hour != tm.tm_hour || tmo.tm_min != tm.tm_min || tmo.tm_sec != tm.tm_sec))
            viol(S, "asn_GT2time:local-tm-wrong", in, "text %s", ref);
    }
    free(r.buf);

    if(ut || !with_frac) return;
    /* fractions */
    {
        int d;
        for(d = 0; d <= 6; d++) {
            int cand[8], nc = 0, k, j;
            cand[nc++] = 0; cand[nc++] = 1; cand[nc++] = pow10i[d] - 1;
            if(d >= 1) { cand[nc++] = pow10i[d - 1]; cand[nc++] = 5 * pow10i[d - 1]; }
            if(d >= 3) cand[nc++] = 120 * pow10i[d - 3];
            cand[nc++] = 1234567 % pow10i[d];
            for(k = 0; k < nc; k++) {
                int v = cand[k], fv = -7, fd = -7;
                char fref[80], digits[16], fin[160];
                int flen, nd;
                for(j = 0; j < k; j++) if(cand[j] == v) break;
                if(j < k || v >= pow10i[d]) continue;      /* v / 10^d is a proper fraction */
                snprintf(fin, sizeof fin, "%s,frac=%d/10^%d", in, v, d);
                flen = snprintf(fref, sizeof fref, "%04d%02u%02u%02u%02u%02u", (int)c.y, c.mo, c.d, c.h, c.mi, c.s);
                if(v > 0 && d > 0) {
                    nd = snprintf(digits, sizeof digits, "%0*d", d, v);
                    while(nd > 0 && digits[nd - 1] == '0') nd--;     /* X.690 11.7.3: no trailing zeros */
                    digits[nd] = 0;
                    flen += snprintf(fref + flen, sizeof fref - (size_t)flen, ".%s", digits);
                }
                flen += snprintf(fref + flen, sizeof fref - (size_t)flen, "Z");
                S->distinct++;
                memset(&g, 0, sizeof g);
                errno = 0;
                S->evals++;
                if(!asn_time2GT_frac(&g, &tm, v, d, 1)) {
                    viol(S, "asn_time2GT_frac:failed", fin, "errno=%d expected %s", errno, fref);
                } else {
                    if((int)g.size != flen || memcmp(g.buf, fref, (size_t)flen))
                        viol(S, "asn_time2GT_frac:wrong-text", fin, "got %s expected %s", quoted((char *)g.buf, g.size), fref);
                    free(g.buf);
                }
                memset(&r, 0, sizeof r);
                r.buf = (uint8_t *)malloc((size_t)flen + 1);
                memcpy(r.buf, fref, (size_t)flen + 1);
                r.size = (size_t)flen;
                errno = 0;
                back = asn_GT2time_frac(&r, &fv, &fd, 0, 0);
                S->evals++;
                if(t == -1 && back == -1 && errno == EINVAL)
                    viol(S, "asn_GT2time_frac:time_t-minus-1-reported-as-EINVAL", fin, "text %s returned -1 with errno=EINVAL, fraction not filled", fref);
                else if(back != tt)
                    viol(S, "asn_GT2time_frac:wrong-time_t", fin, "text %s returned %lld errno=%d", fref, (long long)back, errno);
                else if(fd < 0 || fd > 7 || fv < 0 || (int64_t)fv * pow10i[d] != (int64_t)v * pow10i[fd] || ((v == 0 || d == 0) && (fv || fd)))
                    viol(S, "asn_GT2time_frac:wrong-fraction", fin, "text %s returned %d/10^%d", fref, fv, fd);
                free(r.buf);
            }
        }
    }
}

static int is_leap(int64_t y) { return y % 4 == 0 && (y % 100 != 0 || y % 400 == 0); }

static long gmtoff_at(int64_t t) {
    struct tm tm;
    time_t tt = (time_t)t;
    if(!localtime_r(&tt, &tm)) return 0;
    return (long)tm.tm_gmtoff;
}

static unsigned long long n_transitions;

static void time_year(struct sub *S, int64_t y, int ut) {
    static const int tod[3] = { 0, 12 * 3600 + 34 * 60 + 56, 23 * 3600 + 59 * 60 + 59 };
    int64_t days[4], d0, d1, day;
    int i, j;
    days[0] = days_from_civil(y, 1, 1);
    days[1] = days_from_civil(y, 2, 28);
    days[2] = is_leap(y) ? days_from_civil(y, 2, 29) : days_from_civil(y, 3, 1);
    days[3] = days_from_civil(y, 12, 31);
    if(days[2] != days[1] + 1 || days[3] - days[0] != (is_leap(y) ? 365 : 364))
        oracle_error("days_from_civil inconsistent for year %lld", (long long)y);
    for(i = 0; i < 4; i++)
        for(j = 0; j < 3; j++)
            time_check(S, days[i] * 86400 + tod[j], ut, 1);
    /* UTC-offset transitions of the zone within the year: the seconds around each */
    d0 = days[0]; d1 = days[3] + 1;
    for(day = d0; day < d1; day++) {
        int64_t a = day * 86400, b = a + 86400;
        long oa = gmtoff_at(a);
        if(gmtoff_at(b) == oa) continue;
        while(b - a > 1) {
            int64_t mid = a + (b - a) / 2;
            if(gmtoff_at(mid) == oa) a = mid; else b = mid;
        }
        n_transitions++;
        time_check(S, b - 1, ut, 0);
        time_check(S, b, ut, 1);
        time_check(S, b + 1, ut, 0);
    }
}

static void group_time(void) {
    static struct sub SG = { "time_gt" }, SU = { "time_ut" };
    static const struct { const char *z; int64_t t; long off; } probe[] = {
        { "UTC", 946684800, 0 }, { "America/New_York", 946684800, -18000 }, { "Europe/London", 962409600, 3600 },
        { "Asia/Kolkata", 946684800, 19800 }, { "Australia/Lord_Howe", 962409600, 37800 }, { "Pacific/Chatham", 962409600, 45900 },
        { "XYZ-3:30", 946684800, 12600 } };
    size_t zi;
    int64_t y;
    if(!FIRST_SHARD()) return;
    if(sizeof(time_t) < 8) { oracle_error("time_t is narrower than 64 bits"); return; }
    for(zi = 0; zi < NZONES; zi++) {
        curzone = zones[zi];
        setenv("TZ", curzone, 1);
        tzset();
        if(strcmp(probe[zi].z, curzone) || gmtoff_at(probe[zi].t) != probe[zi].off) {
            oracle_error("time zone %s is not available (offset %ld at %lld, expected %ld)", curzone, gmtoff_at(probe[zi].t),
                         (long long)probe[zi].t, probe[zi].off);
            continue;
        }
        time_year(&SG, 1, 0);
        time_year(&SG, 1582, 0);
        for(y = 1900; y <= 2200; y++) time_year(&SG, y, 0);
        time_year(&SG, 9999, 0);
        for(y = 1950; y <= 2049; y++) time_year(&SU, y, 1);
    }
    note(&SG, "UTC-offset transitions found and probed (both families, all zones): %llu", n_transitions);
    finish(&SG);
    finish(&SU);
}

/* ------------------------------------------------------------------ main */

int main(int argc, char **argv) {
    int i;
    setvbuf(stdout, 0, _IOLBF, 0);
    if(argc < 3) { fprintf(stderr, "usage: prim quick|thorough int|strto|real|oid|time [i/n]\n"); return 0; }
    thorough = strcmp(argv[1], "thorough") == 0;
    if(argc > 3 && sscanf(argv[3], "%u/%u", &shard_i, &shard_n) != 2) { shard_i = 0; shard_n = 1; }
    if(shard_n == 0 || shard_i >= shard_n) { shard_i = 0; shard_n = 1; }
    for(i = 0; i < 256; i++) ALL256[i] = (uint8_t)i;
    if(!strcmp(argv[2], "int")) group_int();
    else if(!strcmp(argv[2], "strto")) group_strto();
    else if(!strcmp(argv[2], "real")) group_real();
    else if(!strcmp(argv[2], "oid")) group_oid();
    else if(!strcmp(argv[2], "time")) group_time();
    else printf("E unknown group %s\n", argv[2]);
    printf("DONE %s\n", argv[2]);
    fflush(stdout);
    return 0;
}
