/* C05: explorer of the restartable-decoder feeding protocol.
 *   chunk TYPE SYNTAX HEX full [MAXSTATES]   complete state graph with canonical heap image as state
 *   chunk TYPE SYNTAX HEX k2                 every schedule with <= 2 interior boundaries + 1-byte feeding
 * State (c, a, H): c bytes consumed, a bytes made available so far, H canonical image of everything the
 * structure under construction owns. Transition: make a' in (a, n] bytes available, call the decoder on
 * buf+c .. buf+a' with the same structure pointer.
 */
#include "drv.h"

struct st { int c, a; unsigned char *img; size_t il; int *hist; int hl; };
static struct st *S; static int ns, cap_s;
static unsigned char *imgbuf; static size_t imgcap = 1 << 22;

struct chunk_res { long trans, viol, calls; int nviol_rec; char rec[6][400]; int terminal_ok; int maxhist; };

NI static void rec_viol(struct chunk_res *R, const char *kind, int rc, int c, const int *hist, int hl, int last) {
    R->viol++;
    if(R->nviol_rec >= 6) return;
    char *o = R->rec[R->nviol_rec++]; int p = snprintf(o, 100, "%s:rc%d:c%d:[", kind, rc, c);
    for(int k = 0; k < hl && p < 360; k++) p += snprintf(o + p, 12, "%d,", hist[k]);
    snprintf(o + p, 16, "%d]", last);
}

/* replay a feeding history on a fresh structure; returns last rval; *cp = total consumed */
NI static asn_dec_rval_t replay(asn_TYPE_descriptor_t *td, enum asn_transfer_syntax sy, const unsigned char *buf,
                                const int *hist, int hl, int last, void **sp, int *cp, int *over, long *calls) {
    void *s = 0; int c = 0; asn_dec_rval_t r; r.code = RC_WMORE; r.consumed = 0;
    for(int k = 0; k <= hl; k++) {
        int A = (k < hl) ? hist[k] : last;
        if(k == hl && last < 0) break;
        unsigned char *p = exact_dup(buf + c, A - c);
        r = asn_decode(0, sy, td, &s, p, A - c);
        (*calls)++;
        exact_free(p, A - c);
        if((int)r.consumed > A - c) *over = 1;
        c += r.consumed;
        if(r.code != RC_WMORE && k < hl) break;   /* cannot happen for stored states */
    }
    *sp = s; *cp = c;
    return r;
}

NI static int der_of(asn_TYPE_descriptor_t *td, void *s, unsigned char **out, ssize_t *n) {
    asn_encode_to_new_buffer_result_t r = asn_encode_to_new_buffer(0, ATS_DER, td, s);
    if(r.buffer) ledger_forget(r.buffer);   /* ownership moves to the harness; released with __real_free */
    *out = r.buffer; *n = r.result.encoded;
    return r.buffer ? 0 : -1;
}

NI static void run_schedule(asn_TYPE_descriptor_t *td, enum asn_transfer_syntax sy, const unsigned char *buf, int n,
                            const int *hist, int hl, const unsigned char *der1, ssize_t dn1, struct chunk_res *R) {
    ledger_reset(); ledger_on = 1;
    void *s = 0; int c = 0;
    asn_dec_rval_t r; r.code = RC_WMORE;
    for(int k = 0; k <= hl; k++) {
        int A = k < hl ? hist[k] : n;
        unsigned char *pp = exact_dup(buf + c, A - c);
        r = asn_decode(0, sy, td, &s, pp, A - c); R->calls++;
        exact_free(pp, A - c);
        if((int)r.consumed > A - c) rec_viol(R, "overconsumed", r.code, c, hist, k, A);
        c += r.consumed;
        R->trans++;
        if(A < n && r.code != RC_WMORE) { rec_viol(R, "prefix_not_wmore", r.code, c, hist, k, A); break; }
        if(A == n) {
            if(r.code != RC_OK || c != n) rec_viol(R, "final_not_ok", r.code, c, hist, k, A);
            else {
                unsigned char *d2; ssize_t dn2;
                if(der_of(td, s, &d2, &dn2) || dn2 != dn1 || memcmp(d2, der1, dn1)) rec_viol(R, "value_differs", r.code, c, hist, k, A);
                else R->terminal_ok++;
                __real_free(d2);
            }
        }
    }
    ASN_STRUCT_FREE(*td, s); ledger_on = 0;
    if(ledger_live() || ledger_bad_free) rec_viol(R, "leak", r.code, c, hist, hl, n);
}

void cmd_chunk(char **a, int na) {
    asn_TYPE_descriptor_t *td = find_type(a[1]);
    if(!td || na < 5) { printf("chunk ERR args\n"); return; }
    enum asn_transfer_syntax sy = syntax_by_name(a[2]);
    unsigned char *buf; size_t n = unhex(a[3], &buf);
    int full = !strcmp(a[4], "full");
    int maxstates = na > 5 ? atoi(a[5]) : 100000;
    struct chunk_res R; memset(&R, 0, sizeof R);
    /* one-shot reference */
    void *s1 = 0;
    unsigned char *x = exact_dup(buf, n);
    asn_dec_rval_t r1 = asn_decode(0, sy, td, &s1, x, n);
    exact_free(x, n);
    unsigned char *der1 = 0; ssize_t dn1 = -1;
    if(r1.code == RC_OK) der_of(td, s1, &der1, &dn1);
    ASN_STRUCT_FREE(*td, s1);
    if(r1.code != RC_OK || r1.consumed != n) {
        printf("chunk oneshot=rc%d:c%zu/%zu\n", r1.code, r1.consumed, n);
        __real_free(der1); exact_free(buf, n); return;
    }
    if(!imgbuf) imgbuf = __real_malloc(imgcap);
    int capped = 0;
    if(full) {
        cap_s = 1024; S = __real_malloc(cap_s * sizeof *S); ns = 1;
        S[0].c = 0; S[0].a = 0; S[0].img = 0; S[0].il = 0; S[0].hist = 0; S[0].hl = 0;
        for(int q = 0; q < ns; q++) {
            for(int a2 = S[q].a + 1; a2 <= (int)n; a2++) {
                struct st cur = S[q];
                ledger_reset(); ledger_on = 1;
                void *s = 0; int c = 0, over = 0;
                asn_dec_rval_t r = replay(td, sy, buf, cur.hist, cur.hl, a2, &s, &c, &over, &R.calls);
                R.trans++;
                if(over) rec_viol(&R, "overconsumed", r.code, c, cur.hist, cur.hl, a2);
                size_t il = canon_image(imgbuf, imgcap);
                if(a2 < (int)n) {
                    if(r.code != RC_WMORE) rec_viol(&R, "prefix_not_wmore", r.code, c, cur.hist, cur.hl, a2);
                } else {
                    if(r.code != RC_OK || c != (int)n) rec_viol(&R, "final_not_ok", r.code, c, cur.hist, cur.hl, a2);
                    else {
                        unsigned char *d2; ssize_t dn2;
                        if(der_of(td, s, &d2, &dn2) || dn2 != dn1 || memcmp(d2, der1, dn1)) rec_viol(&R, "value_differs", r.code, c, cur.hist, cur.hl, a2);
                        else R.terminal_ok++;
                        __real_free(d2);
                    }
                }
                if(r.code == RC_WMORE && a2 < (int)n) {
                    int found = 0;
                    for(int j = ns - 1; j >= 0; j--) if(S[j].c == c && S[j].a == a2 && S[j].il == il && (il == 0 || !memcmp(S[j].img, imgbuf, il))) { found = 1; break; }
                    if(!found) {
                        if(ns >= maxstates) capped = 1;
                        else {
                            if(ns == cap_s) { cap_s *= 2; S = __real_realloc(S, cap_s * sizeof *S); }
                            struct st *N = &S[ns++];
                            N->c = c; N->a = a2; N->il = il; N->img = __real_malloc(il ? il : 1); memcpy(N->img, imgbuf, il);
                            N->hl = cur.hl + 1; N->hist = __real_malloc(N->hl * sizeof(int));
                            if(cur.hl) memcpy(N->hist, cur.hist, cur.hl * sizeof(int));
                            N->hist[cur.hl] = a2;
                            if(N->hl > R.maxhist) R.maxhist = N->hl;
                        }
                    }
                }
                ASN_STRUCT_FREE(*td, s);
                ledger_on = 0;
                if(ledger_live() || ledger_bad_free) rec_viol(&R, ledger_live() ? "leak" : "badfree", r.code, c, cur.hist, cur.hl, a2);
            }
        }
        for(int j = 0; j < ns; j++) { __real_free(S[j].img); __real_free(S[j].hist); }
        __real_free(S);
    } else {
        /* all schedules with 0, 1, 2 interior boundaries, then byte-at-a-time */
        int hist[3]; ns = 0;
        for(int p = 0; p < (int)n; p++) {
            for(int q = (p == 0 ? 0 : p + 1); q < (int)n; q++) {
                /* p == 0: no boundary (q == 0) ; p > 0, q == p+... : we encode "one boundary" as q == n-? below */
                int hl = 0;
                if(p > 0) hist[hl++] = p;
                if(p > 0 && q > p) hist[hl++] = q;
                run_schedule(td, sy, buf, (int)n, hist, hl, der1, dn1, &R);
                ns++;
                if(p == 0) break;
            }
            if(p > 0) { hist[0] = p; run_schedule(td, sy, buf, (int)n, hist, 1, der1, dn1, &R); ns++; }
        }
        /* one byte at a time */
        {
            ledger_reset(); ledger_on = 1;
            void *s = 0; int c = 0; asn_dec_rval_t r; r.code = RC_WMORE;
            for(int A = 1; A <= (int)n; A++) {
                unsigned char *pp = exact_dup(buf + c, A - c);
                r = asn_decode(0, sy, td, &s, pp, A - c); R.calls++; R.trans++;
                exact_free(pp, A - c);
                c += r.consumed;
                if(A < (int)n && r.code != RC_WMORE) { rec_viol(&R, "prefix_not_wmore_bytewise", r.code, c, &A, 0, A); break; }
                if(A == (int)n) {
                    if(r.code != RC_OK || c != (int)n) rec_viol(&R, "final_not_ok_bytewise", r.code, c, &A, 0, A);
                    else {
                        unsigned char *d2; ssize_t dn2;
                        if(der_of(td, s, &d2, &dn2) || dn2 != dn1 || memcmp(d2, der1, dn1)) rec_viol(&R, "value_differs_bytewise", r.code, c, &A, 0, A);
                        else R.terminal_ok++;
                        __real_free(d2);
                    }
                }
            }
            ASN_STRUCT_FREE(*td, s); ledger_on = 0; ns++;
        }
    }
    printf("chunk n=%zu mode=%s states=%d transitions=%ld calls=%ld terminal_ok=%d maxhist=%d capped=%d viol=%ld", n, a[4], ns, R.trans, R.calls, R.terminal_ok, R.maxhist, capped, R.viol);
    for(int i = 0; i < R.nviol_rec; i++) printf(" v=%s", R.rec[i]);
    printf("\n");
    __real_free(der1);
    exact_free(buf, n);
}
