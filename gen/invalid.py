"""Constraint-violating values for C08: values violating exactly one (or two) non-extensible constraints at one
(two) leaf positions, plus the reference validity predicate (set semantics of the constraints as written)."""
from ref.asn1ast import *
from ref import uper as _uper
from gen import values as V

BUILTIN_ALPHA = {
    'NumericString': set(' 0123456789'),
    'PrintableString': set(_uper.DEFAULT_ALPHA['PrintableString']),
    'VisibleString': set(chr(c) for c in range(32, 127)),
    'ISO646String': set(chr(c) for c in range(32, 127)),
    'IA5String': set(chr(c) for c in range(0, 128)),
}


def leaf_valid(mod, t, v):
    """None if no non-extensible constraint applies (nothing asserted), else True/False"""
    bt = mod.resolve(t)
    k = bt.kind
    if k == 'INTEGER':
        c = int_cons(mod, t)
        if c is None:
            return True
        if c.ext:
            return None
        return c.contains(v)
    sc = size_cons(mod, t)
    if sc is not None and sc.ext:
        return None
    if k == 'BIT STRING':
        return True if sc is None else sc.contains(v[1])
    if k == 'OCTET STRING':
        return True if sc is None else sc.contains(len(v))
    if k in STRINGS:
        ok = True if sc is None else sc.contains(len(v))
        a = alpha_of(mod, t)
        if a is not None:
            ok = ok and all(ch in a for ch in v)
        if k in BUILTIN_ALPHA:
            ok = ok and all(ch in BUILTIN_ALPHA[k] for ch in v)
        return ok
    if k in ('SEQUENCE OF', 'SET OF'):
        return True if sc is None else sc.contains(len(v))
    return True


def valid(mod, t, v):
    """True/False, or None when an extensible constraint is involved somewhere (no verdict asserted)"""
    bt = mod.resolve(t)
    k = bt.kind
    res = leaf_valid(mod, t, v)
    if res is None or res is False:
        return res
    if k in ('SEQUENCE', 'SET'):
        for m, _, _ in all_members(bt):
            if m.name in v:
                r = valid(mod, m.type, v[m.name])
                if r is not True:
                    return r
    elif k == 'CHOICE':
        for m in list(bt.root) + list(bt.adds):
            if m.name == v[0]:
                return valid(mod, m.type, v[1])
    elif k in ('SEQUENCE OF', 'SET OF'):
        for e in v:
            r = valid(mod, bt.elem, e)
            if r is not True:
                return r
    return True


def leaf_invalids(mod, t):
    """values of leaf type t violating exactly one constraint: [(value, what)]"""
    bt = mod.resolve(t)
    k = bt.kind
    out = []
    if k == 'INTEGER':
        c = int_cons(mod, t)
        if c is not None and not c.ext:
            if c.lb is not None and c.lb - 1 >= V.LONG_MIN:
                out.append((c.lb - 1, 'below_lb'))
            if c.ub is not None and c.ub + 1 <= V.LONG_MAX:
                out.append((c.ub + 1, 'above_ub'))
            if c.ub is not None and c.ub + 1000 <= V.LONG_MAX:
                out.append((c.ub + 1000, 'far_above_ub'))
        return out
    sc = size_cons(mod, t)
    if k in ('BIT STRING', 'OCTET STRING') or k in STRINGS:
        a = alpha_of(mod, t) if k in STRINGS else None

        def mk(n, bad_char=None):
            if k == 'BIT STRING':
                nb = (n + 7) // 8
                b = bytearray(b'\xff' * nb)
                if n % 8 and nb:
                    b[-1] = (0xff << (8 - n % 8)) & 0xff
                return (bytes(b), n)
            if k == 'OCTET STRING':
                return bytes((i + 1) & 0xff for i in range(n))
            s = V._mkstr(k, a, n)
            if bad_char is not None and n:
                s = s[:n // 2] + bad_char + s[n // 2 + 1:]
            return s
        if sc is not None and not sc.ext:
            if sc.lb and sc.lb > 0:
                out.append((mk(sc.lb - 1), 'size_below'))
            if sc.ub is not None and sc.ub < 70000:
                out.append((mk(sc.ub + 1), 'size_above'))
        if k in STRINGS and (sc is None or not sc.ext):
            n = 2 if sc is None else max(sc.lb or 0, 1) if (sc.ub is None or sc.ub >= 1) else 0
            eff = set(a) if a is not None else BUILTIN_ALPHA.get(k)
            if eff and n:
                lo, hi = min(eff), max(eff)
                cands = []
                if ord(lo) > 0:
                    cands.append(chr(ord(lo) - 1))
                if ord(hi) < (0xff if k not in ('BMPString', 'UniversalString') else 0xfffd):
                    cands.append(chr(ord(hi) + 1))
                # a hole inside the alphabet (e.g. '*' in PrintableString)
                for cp in range(ord(lo), ord(hi)):
                    if chr(cp) not in eff:
                        cands.append(chr(cp))
                        break
                for ch in cands:
                    if ch not in eff:
                        out.append((mk(n, ch), 'alphabet'))
        return out
    return out


def one_violation(mod, t, depth=0):
    """values of t with exactly one violated constraint at one position: [(value, what, path)]"""
    bt = mod.resolve(t)
    k = bt.kind
    out = [(v, w, '') for v, w in leaf_invalids(mod, t)] if k not in ('SEQUENCE OF', 'SET OF') else []
    if depth > 3:
        return out
    if k in ('SEQUENCE', 'SET'):
        base = V.typical(mod, t, depth)
        for m, _, _ in all_members(bt):
            if m.name not in base:
                base[m.name] = V.typical(mod, m.type, depth + 1)
        for m, _, _ in all_members(bt):
            for iv, w, p in one_violation(mod, m.type, depth + 1):
                v = dict(base)
                v[m.name] = iv
                out.append((v, w, '.' + m.name + p))
    elif k == 'CHOICE':
        for m in list(bt.root) + list(bt.adds):
            for iv, w, p in one_violation(mod, m.type, depth + 1):
                out.append(((m.name, iv), w, '.' + m.name + p))
    elif k in ('SEQUENCE OF', 'SET OF'):
        sc = size_cons(mod, t)
        tv = V.typical(mod, bt.elem, depth + 1)
        if sc is not None and not sc.ext:
            if sc.lb and sc.lb > 0:
                out.append(([tv] * (sc.lb - 1), 'count_below', ''))
            if sc.ub is not None and sc.ub < 300:
                out.append(([tv] * (sc.ub + 1), 'count_above', ''))
        n_ok = 2
        if sc is not None and not sc.contains(n_ok):
            n_ok = sc.lb or 0
        for iv, w, p in one_violation(mod, bt.elem, depth + 1):
            for pos in range(max(n_ok, 1)):
                lst = [tv] * max(n_ok, 1)
                lst[pos] = iv
                if sc is None or sc.ext or sc.contains(len(lst)):
                    out.append((lst, w, '[%d]' % pos + p))
    return out
