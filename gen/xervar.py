"""XER variant generator: XML-level transformations of a (validated) CANONICAL-XER document that X.693 says
denote the same value. Type-aware: walks the XML tree in parallel with the (type) tree so that white-space,
comments, reordering etc. are only applied where the content model is element-only."""
import itertools
from ref.asn1ast import *
from ref import ber as B


class El:
    def __init__(self, name):
        self.name = name
        self.children = []   # El or str
        self.selfclosed = False


def parse(xml):
    """minimal parser for asn1c's own XER output (no attributes, no comments, entities left verbatim)"""
    pos = 0
    root = None
    stack = []
    n = len(xml)
    while pos < n:
        if xml[pos] == '<':
            end = xml.index('>', pos)
            tok = xml[pos + 1:end]
            pos = end + 1
            if tok.startswith('/'):
                e = stack.pop()
                assert e.name == tok[1:], (e.name, tok)
            elif tok.endswith('/'):
                e = El(tok[:-1])
                e.selfclosed = True
                (stack[-1].children if stack else []).append(e)
                if not stack:
                    root = e
            else:
                e = El(tok)
                if stack:
                    stack[-1].children.append(e)
                else:
                    root = e
                stack.append(e)
        else:
            nxt = xml.find('<', pos)
            if nxt < 0:
                nxt = n
            if stack:
                stack[-1].children.append(xml[pos:nxt])
            pos = nxt
    return root


def serialize(e, gaps=None):
    """gaps: dict (id(El), index) -> text inserted before child `index` (index == len(children) = after last)"""
    out = []

    def rec(e):
        if e.selfclosed and not e.children:
            out.append('<%s/>' % e.name)
            return
        out.append('<%s>' % e.name)
        for i, c in enumerate(e.children):
            if gaps and (id(e), i) in gaps:
                out.append(gaps[(id(e), i)])
            if isinstance(c, str):
                out.append(c)
            else:
                rec(c)
        if gaps and (id(e), len(e.children)) in gaps:
            out.append(gaps[(id(e), len(e.children))])
        out.append('</%s>' % e.name)
    rec(e)
    return ''.join(out)


def annotate(mod, t, e, out):
    """parallel walk; appends (El, kind, basetype) for every element whose type is known"""
    bt = mod.resolve(t)
    out.append((e, bt.kind, bt))
    k = bt.kind
    kids = [c for c in e.children if isinstance(c, El)]
    if k in ('SEQUENCE', 'SET'):
        ms = {m.name: m for m, _, _ in all_members(bt)}
        for c in kids:
            if c.name in ms:
                annotate(mod, ms[c.name].type, c, out)
    elif k == 'CHOICE':
        ms = {m.name: m for m in list(bt.root) + list(bt.adds)}
        for c in kids:
            if c.name in ms:
                annotate(mod, ms[c.name].type, c, out)
    elif k in ('SEQUENCE OF', 'SET OF'):
        ebt = mod.resolve(bt.elem)
        if ebt.kind in ('BOOLEAN', 'ENUMERATED', 'NULL'):
            return   # value-list form: children are not wrapped in an element of their own
        if ebt.kind == 'CHOICE' and bt.elem.kind != 'REF':
            return
        for c in kids:
            annotate(mod, bt.elem, c, out)


CONTAINER = ('SEQUENCE', 'SET', 'CHOICE', 'SEQUENCE OF', 'SET OF')
EMPTY_OK = ('OCTET STRING', 'NULL', 'UTF8String', 'IA5String', 'VisibleString', 'PrintableString', 'NumericString', 'BMPString',
            'UniversalString', 'GeneralString', 'GraphicString', 'T61String', 'VideotexString', 'ObjectDescriptor', 'BIT STRING',
            'SEQUENCE', 'SET', 'SEQUENCE OF', 'SET OF')


def variants(mod, t, v, cxer_text, k=1, cap=400):
    """yields (label, text) of XER documents that must decode to the same value as cxer_text"""
    root = parse(cxer_text)
    ann = []
    annotate(mod, t, root, ann)
    out = []
    # V1/V2: white-space and comments in the gaps of element-only content
    gaps = []
    for e, kind, bt in ann:
        if kind in CONTAINER and not (e.selfclosed and not e.children):
            ebt = mod.resolve(bt.elem) if kind in ('SEQUENCE OF', 'SET OF') else None
            if ebt is not None and ebt.kind in ('BOOLEAN', 'ENUMERATED', 'NULL'):
                pass
            for i in range(len(e.children) + 1):
                gaps.append((id(e), i))
    for g in gaps:
        for lab, txt in (('sp', ' '), ('tab', '\t'), ('cr', '\r'), ('lf', '\n'), ('comment', '<!-- c -->'), ('wsrun', ' \n\t ')):
            out.append(('gap_' + lab, serialize(root, {g: txt})))
    if gaps:
        out.append(('all_gaps_lf', serialize(root, {g: '\n  ' for g in gaps})))
        out.append(('all_gaps_comment', serialize(root, {g: '<!--x-->' for g in gaps})))
    # V3: <x></x> <-> <x/>
    for e, kind, bt in ann:
        if kind in EMPTY_OK and not e.children:
            e.selfclosed = not e.selfclosed
            out.append(('empty_form', serialize(root)))
            e.selfclosed = not e.selfclosed
    # V4: SET members in any order
    for e, kind, bt in ann:
        if kind == 'SET' and len(e.children) > 1:
            orig = list(e.children)
            n = len(orig)
            perms = list(itertools.permutations(range(n))) if n <= 3 else [tuple((i + r) % n for i in range(n)) for r in range(n)] + [tuple(range(n - 1, -1, -1))]
            for p in perms[1:]:
                e.children = [orig[i] for i in p]
                out.append(('set_order', serialize(root)))
            e.children = orig
    # V5: DEFAULT-valued member omitted
    for e, kind, bt in ann:
        if kind in ('SEQUENCE', 'SET'):
            for m, _, _ in all_members(bt):
                if not m.has_default:
                    continue
                for i, c in enumerate(e.children):
                    if isinstance(c, El) and c.name == m.name:
                        # only drop it if it really carries the default value: decided by the caller's value
                        pass
    # V6: unknown extension element at the end of an extensible SEQUENCE / SET
    for e, kind, bt in ann:
        if kind in ('SEQUENCE', 'SET') and bt.ext and not (e.selfclosed and not e.children):
            for lab, txt in (('unknown_ext_simple', '<zzUnknown>1</zzUnknown>'), ('unknown_ext_nested', '<zzUnknown><inner><deep/></inner>text</zzUnknown>'),
                             ('unknown_ext_empty', '<zzUnknown/>')):
                out.append((lab, serialize(root, {(id(e), len(e.children)): txt})))
    # V7: character references in character-string content (X.693 8.? / XML 4.1): the first character, if it is a plain one,
    # written as &#xH; and &#D; (the decoder's reference handling has its own UTF-8 length ladder)
    CHARSTR = ('UTF8String', 'IA5String', 'VisibleString', 'PrintableString', 'NumericString', 'BMPString', 'UniversalString')
    for e, kind, bt in ann:
        if kind in CHARSTR and len(e.children) == 1 and isinstance(e.children[0], str) and e.children[0]:
            txt = e.children[0]
            c0 = txt[0]
            if c0 in '&<>' or ord(c0) < 0x20 or 0xd800 <= ord(c0) <= 0xdfff:
                continue
            for lab, ref in (('charref_hex', '&#x%x;' % ord(c0)), ('charref_dec', '&#%d;' % ord(c0))):
                e.children[0] = ref + txt[1:]
                out.append((lab, serialize(root)))
            e.children[0] = txt
    # document-level
    out.append(('lead_ws', ' \n' + cxer_text))
    out.append(('lead_comment', '<!-- hello -->' + cxer_text))
    if len(out) > cap:
        out = out[:cap]
    return out


def default_dropped(mod, t, v, cxer_text):
    """variants with one DEFAULT-valued member (whose value equals the default) removed; value-aware"""
    root = parse(cxer_text)
    res = []

    def rec(t, v, e):
        bt = mod.resolve(t)
        k = bt.kind
        kids = [c for c in e.children if isinstance(c, El)]
        if k in ('SEQUENCE', 'SET'):
            for m, _, _ in all_members(bt):
                if m.name not in v:
                    continue
                for c in kids:
                    if c.name == m.name:
                        if m.has_default and B.values_equal(mod, m.type, v[m.name], m.default):
                            saved = list(e.children)
                            e.children = [x for x in e.children if x is not c]
                            res.append(('default_absent', serialize(root)))
                            e.children = saved
                        rec(m.type, v[m.name], c)
        elif k == 'CHOICE':
            for m in list(bt.root) + list(bt.adds):
                if m.name == v[0]:
                    for c in kids:
                        if c.name == m.name:
                            rec(m.type, v[1], c)
        elif k == 'SEQUENCE OF':
            ebt = mod.resolve(bt.elem)
            if ebt.kind in ('BOOLEAN', 'ENUMERATED', 'NULL', 'CHOICE'):
                return
            for c, ev in zip(kids, v):
                rec(bt.elem, ev, c)
    rec(t, v, root)
    return res
