"""Value alphabets: boundary values per leaf, typical values, one-/two-deviation products for containers."""
import math, itertools
from ref.asn1ast import *
from ref import uper as _uper

LONG_MIN, LONG_MAX = -(1 << 63), (1 << 63) - 1


def _int_values(c, named):
    cands = {0, 1, -1, 2, 42, 65537, -65537}
    for k in (7, 8, 15, 16, 31, 32, 63):
        cands |= {(1 << k) - 1, 1 << k, -(1 << k), -(1 << k) - 1}
    cands |= {(1 << 64) - 1, (1 << 63)}
    lo, hi = LONG_MIN, LONG_MAX
    if c is not None:
        if c.lb is not None:
            cands |= {c.lb, c.lb + 1, c.lb - 1}
        if c.ub is not None:
            cands |= {c.ub, c.ub - 1, c.ub + 1}
        if c.lb is not None and c.ub is not None:
            cands.add((c.lb + c.ub) // 2)
        if c.lb is not None and c.lb >= 0 and c.ub is not None and c.ub > LONG_MAX:
            lo, hi = 0, (1 << 64) - 1
    if named:
        cands |= {v for _, v in named}
    out = []
    for v in sorted(cands):
        if v < lo or v > hi:
            continue
        if c is not None and not c.ext and not c.contains(v):
            continue
        out.append(v)
    # thin out the unbounded interior: keep all values near constraint bounds and the width thresholds
    if len(out) > 26:
        keep = set(out[:4] + out[-4:])
        for v in out:
            a = abs(v)
            if a <= 2 or v in (42,) or any(abs(a - (1 << k)) <= 1 for k in (7, 8, 15, 16, 31, 32, 63, 64)):
                keep.add(v)
        out = [v for v in out if v in keep]
    return out


def _lengths(sc, big=False):
    base = [0, 1, 2, 3, 127, 128, 256] if not big else [0, 1, 127, 128, 255, 256, 16383, 16384, 16385, 32768, 49152, 65535, 65536, 65537, 81920]
    if sc is None:
        return base if big else [0, 1, 3, 127, 128, 256]
    lb = sc.lb or 0
    cand = {lb, lb + 1}
    if sc.ub is not None:
        cand |= {sc.ub, sc.ub - 1}
        if sc.ext:
            cand |= {sc.ub + 1, max(0, lb - 1), sc.ub + 130}
    else:
        cand |= set(base)
    if sc.ub is None or sc.ub - lb > 300:
        cand |= {127, 128, 256}
    out = []
    for n in sorted(cand):
        if n < 0:
            continue
        if not sc.ext and not sc.contains(n):
            continue
        if not big and n > 70000:
            continue
        out.append(n)
    if not big and len(out) > 8:
        out = out[:4] + out[-4:]
    return out


def _chars(kind, alpha):
    if alpha:
        a = ''.join(sorted(set(alpha)))
    elif kind in _uper.DEFAULT_ALPHA:
        a = _uper.DEFAULT_ALPHA[kind]
        if kind == 'IA5String':
            a = ''.join(chr(c) for c in range(32, 127)) + '\x7f'   # keep XML-safe control-free text in sweeps
    elif kind == 'BMPString':
        a = 'Aé€￮~'
    elif kind == 'UniversalString':
        a = 'Aé€\U0001f600~'
    elif kind == 'UTF8String':
        a = 'Aé€\U0001f600~'
    else:
        a = 'Az09 ~'
    return a


def _mkstr(kind, alpha, n, variant=0):
    a = _chars(kind, alpha)
    picks = list(a) if len(a) <= 6 else [a[0], a[-1], a[len(a) // 2]]     # short alphabets (incl. the 1/2/3/4-octet UTF-8 ladder) in full
    if variant == 1:
        return (a[-1] * n)
    return ''.join(picks[i % len(picks)] for i in range(n))


def leaf_values(mod, t, big=False):
    bt = mod.resolve(t)
    k = bt.kind
    if k == 'BOOLEAN':
        return [True, False]
    if k == 'NULL':
        return [None]
    if k == 'INTEGER':
        return _int_values(int_cons(mod, t), bt.named)
    if k == 'ENUMERATED':
        vals = [v for _, v in bt.root]
        if len(vals) > 8:
            s = sorted(vals)
            vals = s[:2] + s[-2:] + [s[len(s) // 2]]
        adds = [v for _, v in bt.adds]
        if len(adds) > 8:
            adds = adds[:2] + [adds[62], adds[63], adds[64], adds[65]] + adds[-1:] if len(adds) > 66 else adds[:4] + adds[-2:]
        return vals + adds
    if k == 'REAL':
        return [0.0, -0.0, math.inf, -math.inf, math.nan, 1.0, -1.0, 0.5, 2.0 ** 1023, 2.0 ** -1022, 5e-324, 1.7976931348623157e308,
                1.0 + 2.0 ** -52, 3.0, 1e10, -123.456,
                # base-2 exponents at the one/two-octet boundaries of the exponent field
                2.0 ** -128, 3 * 2.0 ** -128, 2.0 ** -129, 2.0 ** -127, 2.0 ** 127, 2.0 ** 128, -(2.0 ** 128), 2.0 ** -1000]
    if k == 'OBJECT IDENTIFIER':
        return [(0, 0), (1, 2, 3), (0, 39), (1, 39, 127, 128, 16383, 16384), (2, 48, 1 << 28), (2, 100, 3), (2, 999, (1 << 32) - 1)]
    if k == 'RELATIVE-OID':
        return [(0,), (1, 2, 3), (128, 16384, (1 << 32) - 1), (127,)]
    if k == 'UTCTime':
        return ['700101000000Z', '991231235959Z', '000229120000Z', '490101000000Z']
    if k == 'GeneralizedTime':
        return ['19700101000000Z', '20000229120000.5Z', '99991231235959.999Z', '19000101000000Z']
    sc = size_cons(mod, t)
    if k == 'OCTET STRING':
        out = []
        for n in _lengths(sc, big):
            out.append(bytes((i * 37 + 1) & 0xff for i in range(n)))
        if sc is None or sc.contains(2) or sc.ext:
            out.append(b'\x00\xff')
        return out
    if k == 'BIT STRING':
        out = []
        if bt.named:
            top = max(v for _, v in bt.named)
            cands = [0, 1, top + 1, top + 2]
        else:
            cands = _lengths(sc, big)
            extra = set()
            for n in cands:
                for d in (7, 8, 9):
                    if sc is None or sc.ext or sc.contains(n + d):
                        if not (sc is None and n > 200):
                            extra.add(n + d)
            cands = sorted(set(cands) | (extra if len(cands) < 6 else set()))
        for n in cands:
            if sc is not None and not sc.ext and not sc.contains(n):
                continue
            nb = (n + 7) // 8
            ones = bytearray(b'\xff' * nb)
            if n % 8 and nb:
                ones[-1] = (0xff << (8 - n % 8)) & 0xff
            out.append((bytes(ones), n))                       # all ones
            if n >= 2 and not big:
                z = bytearray(ones)
                z[(n - 1) >> 3] &= ~(0x80 >> ((n - 1) & 7)) & 0xff   # last bit zero
                out.append((bytes(z), n))
            if n >= 10 and not big and n < 300:
                z = bytearray(ones)
                for i in range(n - 9, n):
                    z[i >> 3] &= ~(0x80 >> (i & 7)) & 0xff          # nine trailing zero bits
                out.append((bytes(z), n))
            if 0 < n < 300 and not big:
                out.append((bytes(nb), n))                       # all zero
        return out
    if k in STRINGS:
        alpha = alpha_of(mod, t)
        out = []
        for n in _lengths(sc, big):
            out.append(_mkstr(k, alpha, n))
        ok2 = sc is None or sc.ext or sc.contains(2)
        if ok2:
            out.append(_mkstr(k, alpha, 2, 1))
        # the XML-special characters (escaped as &amp; &lt; &gt; by the XER encoder, a tokenizer state of their own in the decoder)
        if not big and alpha is None and k in ('IA5String', 'VisibleString', 'UTF8String', 'BMPString', 'UniversalString', 'GeneralString', 'GraphicString'):
            for sp in ('&', 'a&b<c>d', '<&>&'):
                if sc is None or sc.ext or sc.contains(len(sp)):
                    out.append(sp)
        return out
    raise ValueError(k)


def typical(mod, t, depth=0):
    bt = mod.resolve(t)
    k = bt.kind
    if k in ('SEQUENCE', 'SET'):
        v = {}
        for m, isadd, g in all_members(bt):
            if m.has_default:
                v[m.name] = m.default
            elif m.optional and (depth > 1 or _recursive_risk(mod, m.type, depth)):
                continue
            else:
                v[m.name] = typical(mod, m.type, depth + 1)
        return v
    if k == 'CHOICE':
        alts = list(bt.root) + list(bt.adds)
        if depth > 2:
            for m in alts:
                if mod.resolve(m.type).kind not in CONSTRUCTED:
                    return (m.name, typical(mod, m.type, depth + 1))
        m = alts[0]
        return (m.name, typical(mod, m.type, depth + 1))
    if k in ('SEQUENCE OF', 'SET OF'):
        sc = size_cons(mod, t)
        n = 1 if depth < 3 else 0
        if sc is not None and not sc.contains(n):
            n = sc.lb or 0
        return [typical(mod, bt.elem, depth + 1) for _ in range(n)]
    vals = leaf_values(mod, t)
    return vals[len(vals) // 2] if k not in ('REAL',) else 1.0


def _recursive_risk(mod, t, depth):
    return depth > 3


def container_values(mod, t, two=False, depth=0):
    """one-deviation (optionally two-deviation) product of member alphabets + presence masks + OF lengths."""
    bt = mod.resolve(t)
    k = bt.kind
    if k not in CONSTRUCTED:
        return leaf_values(mod, t)
    if depth > 2:
        return [typical(mod, t, depth)]
    out = []
    if k in ('SEQUENCE', 'SET'):
        base = typical(mod, t, depth)
        ms = [m for m, _, _ in all_members(bt)]
        # make every member present in the base (optional ones too) unless recursion forbids
        full = dict(base)
        for m in ms:
            if m.name not in full and depth < 2:
                full[m.name] = typical(mod, m.type, depth + 1)
        out.append(full)
        per = {}
        for m in ms:
            per[m.name] = container_values(mod, m.type, False, depth + 1)
            for mv in per[m.name]:
                v = dict(full)
                v[m.name] = mv
                out.append(v)
        opt = [m for m in ms if m.optional and not m.has_default]
        # additions that are not OPTIONAL may only be absent together with everything after them; keep simple: masks over OPTIONAL
        if len(opt) <= 4:
            for mask in range(1 << len(opt)):
                v = dict(full)
                for i, m in enumerate(opt):
                    if mask >> i & 1:
                        v.pop(m.name, None)
                out.append(v)
        else:
            for m in opt:
                v = dict(full)
                v.pop(m.name)
                out.append(v)
            v = dict(full)
            for m in opt:
                v.pop(m.name)
            out.append(v)
            # ... and exactly one of them present
            for keep in opt:
                v = dict(full)
                for m in opt:
                    if m is not keep:
                        v.pop(m.name)
                out.append(v)
        if two:
            for a, b in itertools.combinations(ms, 2):
                for va in per[a.name][:6]:
                    for vb in per[b.name][:6]:
                        v = dict(full)
                        v[a.name] = va
                        v[b.name] = vb
                        out.append(v)
        return out
    if k == 'CHOICE':
        for m in list(bt.root) + list(bt.adds):
            for mv in container_values(mod, m.type, False, depth + 1):
                out.append((m.name, mv))
        return out
    if k in ('SEQUENCE OF', 'SET OF'):
        sc = size_cons(mod, t)
        ev = container_values(mod, bt.elem, False, depth + 1)
        lens = {0, 1, 2, 3}
        if sc is not None:
            lens = {sc.lb or 0, (sc.lb or 0) + 1}
            if sc.ub is not None:
                lens |= {sc.ub, sc.ub - 1}
                if sc.ext:
                    lens.add(sc.ub + 1)
        tv = typical(mod, bt.elem, depth + 1)
        for n in sorted(lens):
            if n < 0 or n > 300:
                continue
            if sc is not None and not sc.ext and not sc.contains(n):
                continue
            out.append([ev[i % len(ev)] for i in range(n)])
        okn = lambda n: sc is None or sc.ext or sc.contains(n)
        if okn(1):
            for e in ev:
                out.append([e])
        if okn(2):
            for e in ev[:8]:
                out.append([tv, e])
                out.append([e, tv])
        return out
    raise ValueError(k)


def dedup(mod, t, vals, keyfn):
    seen = set()
    out = []
    for v in vals:
        k = keyfn(v)
        if k in seen:
            continue
        seen.add(k)
        out.append(v)
    return out
