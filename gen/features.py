"""Feature extraction over (type, value): names the constructs a case exercises. Used (a) to key the narrow
excluded regions of known findings and (b) for coverage histograms in the evidence."""
from ref.asn1ast import *


def walk(mod, t, v, fn, path=''):
    """calls fn(t, bt, v, path) for every (type node, value) pair reachable in the value."""
    bt = mod.resolve(t)
    fn(t, bt, v, path)
    k = bt.kind
    if k in ('SEQUENCE', 'SET'):
        for m, isadd, g in all_members(bt):
            if m.name in v:
                walk(mod, m.type, v[m.name], fn, path + '.' + m.name)
    elif k == 'CHOICE':
        an, av = v
        for m in list(bt.root) + list(bt.adds):
            if m.name == an:
                walk(mod, m.type, av, fn, path + '.' + an)
    elif k in ('SEQUENCE OF', 'SET OF'):
        for i, e in enumerate(v):
            walk(mod, bt.elem, e, fn, path + '[]')


def features(mod, t, v):
    f = set()

    def fn(t, bt, v, path):
        k = bt.kind
        f.add('k:' + k)
        if k == 'SET':
            f.add('has_SET')
        al = alpha_of(mod, t) if k in ('IA5String', 'VisibleString', 'PrintableString', 'NumericString', 'BMPString', 'UniversalString') else None
        if al:
            cs = sorted(set(ord(c) for c in al))
            if cs[-1] - cs[0] + 1 != len(cs):
                f.add('alpha_from_noncontiguous')      # compiled to a lookup table + PER character map
        if k == 'INTEGER':
            c = int_cons(mod, t)
            if c is not None and not c.ext and c.lb is not None and c.ub is None and c.lb != 0:
                f.add('int_semi_lb_nonzero')
            if c is not None and c.ext and not c.contains(v):
                f.add('int_out_of_root')
            if c is not None and not c.ext and c.lb == 0 and c.ub is None and v > 0 and v.bit_length() % 8 == 0:
                f.add('int_semi_msb_set')
            if c is not None and c.ext and ',...,' in c.text.replace(' ', ''):
                f.add('int_ext_additional_ranges')
            if c is not None and not c.ext and c.lb == 0 and c.ub == 4294967295:
                f.add('int_cons_0_u32max')
            if c is not None and not c.ext and c.lb is not None and c.ub is not None and c.ub - c.lb >= (1 << 63):
                f.add('int_range_ge_2_63')
        if k == 'BIT STRING':
            b, n = v
            last0 = n > 0 and not (b[(n - 1) >> 3] & (0x80 >> ((n - 1) & 7)))
            if last0 and not bt.named:
                f.add('bitstr_trailing_zero')
            if last0 and bt.named:
                f.add('bitstr_named_trailing_zero')
            if n == 0:
                f.add('bitstr_empty')
            sc = size_cons(mod, t)
            if sc is not None and sc.ext and not sc.contains(n):
                f.add('bitstr_out_of_root_size')
        if k in KNOWN_MULT:
            sc = size_cons(mod, t)
            if sc is not None and sc.ext and not sc.contains(len(v)):
                f.add('kmstr_out_of_root_size')
        if k == 'ENUMERATED':
            adds = [x for _, x in bt.adds]
            if v in adds:
                f.add('enum_ext')
                if adds.index(v) >= 64:
                    f.add('enum_ext_idx_ge64')
        if k == 'REAL':
            import math
            if v != v:
                f.add('real_nan')
            elif v == 0 and math.copysign(1, v) < 0:
                f.add('real_minus_zero')
            elif v in (math.inf, -math.inf):
                f.add('real_inf')
        if k in ('SEQUENCE', 'SET'):
            if bt.ext:
                f.add('ext_seq')
                for m, isadd, g in all_members(bt):
                    if isadd and m.name in v:
                        f.add('ext_addition_present')
                        if g is not None:
                            f.add('ext_group_present')
                        if any(gg is not None for _, _, gg in all_members(bt)):
                            f.add('ext_addition_in_grouped_type')
        if k == 'CHOICE':
            if v[0] in [m.name for m in bt.adds]:
                f.add('choice_ext_alt')
        if k in ('SEQUENCE OF', 'SET OF'):
            if k == 'SET OF' and len(v) > 1:
                f.add('setof_multi')
    walk(mod, t, v, fn)
    top = t
    # the named type itself is a bare (possibly tagged) reference to / alias of a useful type
    f.add('top:' + mod.resolve(top).kind)
    if top.kind != 'REF' and top.size is None and top.alpha is None and top.cons is None:
        f.add('top_bare:' + top.kind)
    return f
