"""Type-shape enumerator: leaf catalogue and the shape families S0..S6 of DESIGN 4.1.

Every family is a finite set that is enumerated completely; `cases(tier)` returns them all.
"""
import copy, itertools
from collections import OrderedDict
from ref.asn1ast import *
from ref import tags as T


class Case:
    def __init__(self, family, label, tagdefault, main, defs=None):
        self.family, self.label, self.tagdefault = family, label, tagdefault
        self.main = main          # Type of the main definition
        self.defs = defs or OrderedDict()   # auxiliary named types (name suffix -> Type); referenced via REF '@suffix'
        self.name = None          # assigned by pack()


# ------------------------------------------------------------------ leaf catalogue

def _enum(n, start=0):
    return [('e%d' % i, start + i) for i in range(n)]


def leaf_catalogue(tier='quick'):
    L = []

    def add(label, fn):
        L.append((label, fn))
    add('BOOLEAN', lambda: Type('BOOLEAN'))
    add('NULL', lambda: Type('NULL'))
    add('REAL', lambda: Type('REAL'))
    add('OID', lambda: Type('OBJECT IDENTIFIER'))
    add('RELOID', lambda: Type('RELATIVE-OID'))
    add('UTCTime', lambda: Type('UTCTime'))
    add('GeneralizedTime', lambda: Type('GeneralizedTime'))
    ints = [
        ('INT', None), ('INT_0_1', Cons(0, 1)), ('INT_0_7', Cons(0, 7)), ('INT_0_255', Cons(0, 255)), ('INT_0_256', Cons(0, 256)),
        ('INT_m128_127', Cons(-128, 127)), ('INT_3_3', Cons(3, 3)), ('INT_0_65535', Cons(0, 65535)), ('INT_0_65536', Cons(0, 65536)),
        ('INT_u32', Cons(0, 4294967295)), ('INT_s32', Cons(-2147483648, 2147483647)), ('INT_0_MAX', Cons(0, None)),
        ('INT_5_MAX', Cons(5, None)), ('INT_MIN_5', Cons(None, 5)), ('INT_MIN_MAX', Cons(None, None)),
        ('INT_0_7_ext', Cons(0, 7, True)), ('INT_0_7_ext_20_30', Cons(0, 7, True, '0..7,...,20..30')),
        ('INT_s64', Cons(-(1 << 63), (1 << 63) - 1)), ('INT_u64', Cons(0, (1 << 64) - 1)),
        ('INT_m1_MAX', Cons(-1, None)), ('INT_m32769_32767', Cons(-32769, 32767)), ('INT_1_1ext', Cons(1, 1, True)),
    ]
    for lab, c in ints:
        add(lab, (lambda c=c: Type('INTEGER', cons=copy.copy(c))))
    add('INT_named', lambda: Type('INTEGER', named=[('one', 1), ('two', 2)]))
    add('ENUM3', lambda: Type('ENUMERATED', root=_enum(3)))
    add('ENUM_explicit', lambda: Type('ENUMERATED', root=[('neg', -5), ('three', 3), ('big', 100000)]))
    add('ENUM_ext', lambda: Type('ENUMERATED', root=_enum(2), ext=True))
    add('ENUM_ext_adds', lambda: Type('ENUMERATED', root=_enum(2), ext=True, adds=[('x2', 2), ('x3', 3)]))
    add('ENUM1', lambda: Type('ENUMERATED', root=[('only', 0)]))
    add('ENUM_ext70', lambda: Type('ENUMERATED', root=[('r0', 0)], ext=True, adds=[('a%d' % i, i) for i in range(1, 71)]))
    add('ENUM257', lambda: Type('ENUMERATED', root=_enum(257)))
    add('ENUM_129', lambda: Type('ENUMERATED', root=[('ez', 0), ('em', 127), ('en', 128), ('eo', 129), ('eneg', -129)]))
    sizes = [('', None), ('_S0', Cons(0, 0)), ('_S1', Cons(1, 1)), ('_S2', Cons(2, 2)), ('_S3', Cons(3, 3)), ('_S8', Cons(8, 8)),
             ('_S16', Cons(16, 16)), ('_S17', Cons(17, 17)), ('_S1_4', Cons(1, 4)), ('_S4ext', Cons(4, 4, True)),
             ('_S0_65535', Cons(0, 65535)), ('_S0_MAX', Cons(0, None)), ('_S1_4ext', Cons(1, 4, True)), ('_S0_300', Cons(0, 300)), ('_S1_5', Cons(1, 5))]
    for s, c in sizes:
        add('BITS' + s, (lambda c=c: Type('BIT STRING', size=copy.copy(c))))
        add('OCTS' + s, (lambda c=c: Type('OCTET STRING', size=copy.copy(c))))
    add('BITS_named', lambda: Type('BIT STRING', named=[('b0', 0), ('b3', 3), ('b9', 9)]))
    # _S1_5: a span that is not a power of two leaves spare code points in the PER length field
    strsizes = [('', None), ('_S2', Cons(2, 2)), ('_S1_4', Cons(1, 4)), ('_S1_4ext', Cons(1, 4, True)), ('_S0_300', Cons(0, 300)), ('_S1_5', Cons(1, 5))]
    for k in ('IA5String', 'VisibleString', 'PrintableString', 'NumericString', 'BMPString', 'UniversalString'):
        for s, c in strsizes:
            add(k + s, (lambda k=k, c=c: Type(k, size=copy.copy(c))))
    # permitted alphabets
    add('IA5_FROM_az', lambda: Type('IA5String', alpha='abcdefghijklmnopqrstuvwxyz', alpha_text='"a".."z"'))
    add('IA5_FROM_az_S1_4', lambda: Type('IA5String', size=Cons(1, 4), alpha='abcdefghijklmnopqrstuvwxyz', alpha_text='"a".."z"'))
    add('Vis_FROM_AD', lambda: Type('VisibleString', alpha='ABCD', alpha_text='"A".."D"'))
    add('Num_FROM_09', lambda: Type('NumericString', alpha='0123456789', alpha_text='"0".."9"'))
    add('Print_FROM_AZ', lambda: Type('PrintableString', alpha='ABCDEFGHIJKLMNOPQRSTUVWXYZ', alpha_text='"A".."Z"'))
    add('IA5_FROM_x', lambda: Type('IA5String', alpha='x', alpha_text='"x"'))
    # alphabets made of several disjoint ranges are compiled to a lookup table (a single range becomes comparisons); top characters on and
    # off a multiple of 16 (the table is emitted in rows of 16)
    add('IA5_FROM_af_p', lambda: Type('IA5String', alpha='abcdefp', alpha_text='"a".."f" | "p"'))
    add('IA5_FROM_09_at_S1_4', lambda: Type('IA5String', size=Cons(1, 4), alpha='0123456789@', alpha_text='"0".."9" | "@"'))
    add('Vis_FROM_ac_xz', lambda: Type('VisibleString', alpha='abcxyz', alpha_text='"a".."c" | "x".."z"'))
    add('BMP_FROM_AZ', lambda: Type('BMPString', alpha='ABCDEFGHIJKLMNOPQRSTUVWXYZ', alpha_text='"A".."Z"'))
    add('UTF8String', lambda: Type('UTF8String'))
    add('UTF8String_S1_4', lambda: Type('UTF8String', size=Cons(1, 4)))
    add('GeneralString', lambda: Type('GeneralString'))
    add('GraphicString', lambda: Type('GraphicString'))
    add('T61String', lambda: Type('T61String'))
    add('VideotexString', lambda: Type('VideotexString'))
    add('ObjectDescriptor', lambda: Type('ObjectDescriptor'))
    return L


CORE = ['BOOLEAN', 'INT', 'INT_0_7', 'OCTS', 'IA5String_S1_4', 'ENUM_ext_adds']
DEFAULTABLE = {'BOOLEAN': True, 'INT': 7, 'INT_0_7': 3, 'INT_0_255': 200, 'INT_m128_127': -1, 'INT_0_7_ext': 5, 'ENUM3': 1, 'ENUM_ext_adds': 1,
               'IA5String_S1_4': 'hi', 'IA5String': 'dflt', 'INT_s32': -2147483648, 'INT_u32': 4294967295, 'UTF8String': 'x', 'INT_named': 2,
               'NULL': None}

MORE_DEFAULTS = {'INT': [0, -1, 127, 128, 255, 256, -128, -129, 32767, 32768, 65535, -32768, -32769], 'INT_0_MAX': [0, 128, 255, 65535],
                 'INT_0_7_ext': [0, 7], 'INT_s32': [0, 2147483647], 'INT_u32': [0, 2147483648]}


def leaf(label, cat=None):
    cat = cat or dict(leaf_catalogue())
    return cat[label]()


def tagged(t, tag):
    t = copy.copy(t)
    t.tag = tag
    return t


MEMBER_TAG_MODES = [None, (2, 1, None), (2, 1, 'IMPLICIT'), (2, 1, 'EXPLICIT'), (1, 1, None), (2, 31, None), (3, 1, 'EXPLICIT')]


def _container_with(role, kind, leaf_t, label, tagmode, default=None):
    """3-member container of `kind` with the leaf in `role`. tagmode: index into member tagging variants:
    'none' (untagged members) or 'all' (every member carries a written tag of the given style)."""
    f1 = Type('BOOLEAN')
    f2 = Type('INTEGER', cons=Cons(0, 7))
    mt = leaf_t

    def tg(i, t):
        if tagmode is None:
            return t
        cls, num, mode = tagmode
        return tagged(t, (cls, num + i, mode))
    if kind in ('SEQUENCE', 'SET'):
        if role == 'mandatory':
            return Type(kind, root=[Member('f', tg(0, f1)), Member('m', tg(1, mt)), Member('g', tg(2, f2))])
        if role == 'optional':
            return Type(kind, root=[Member('f', tg(0, f1)), Member('m', tg(1, mt), optional=True), Member('g', tg(2, f2))])
        if role == 'default':
            return Type(kind, root=[Member('f', tg(0, f1)), Member('m', tg(1, mt), default=default, has_default=True), Member('g', tg(2, f2))])
        if role == 'last_optional':
            return Type(kind, root=[Member('f', tg(0, f1)), Member('g', tg(2, f2)), Member('m', tg(1, mt), optional=True)])
        if role == 'ext_add':
            return Type(kind, root=[Member('f', tg(0, f1)), Member('g', tg(2, f2), optional=True)], ext=True,
                        adds=[Member('m', tg(1, mt), optional=True), Member('h', tg(3, Type('NULL')), optional=True)])
        if role == 'ext_add_mand':
            return Type(kind, root=[Member('f', tg(0, f1))], ext=True, adds=[Member('m', tg(1, mt))])
        if role == 'ext_group':
            return Type(kind, root=[Member('f', tg(0, f1))], ext=True,
                        adds=[Group([Member('m', tg(1, mt)), Member('h', tg(3, Type('BOOLEAN')), optional=True)]), Member('k', tg(4, f2), optional=True)])
        if role == 'ext_empty':
            return Type(kind, root=[Member('f', tg(0, f1)), Member('m', tg(1, mt))], ext=True)
    if kind == 'CHOICE':
        if role == 'alt':
            return Type('CHOICE', root=[Member('f', tg(0, f1)), Member('m', tg(1, mt)), Member('g', tg(2, f2))])
        if role == 'alt_ext':
            return Type('CHOICE', root=[Member('f', tg(0, f1)), Member('m', tg(1, mt))], ext=True)
        if role == 'ext_alt':
            return Type('CHOICE', root=[Member('f', tg(0, f1))], ext=True, adds=[Member('g', tg(1, f2)), Member('m', tg(2, mt))])
    if kind in ('SEQUENCE OF', 'SET OF'):
        if role == 'elem':
            return Type(kind, elem=mt)
        if role == 'elem_sized':
            return Type(kind, elem=mt, size=Cons(1, 3))
        if role == 'elem_sized_ext':
            return Type(kind, elem=mt, size=Cons(0, 2, True))
    return None


SEQ_ROLES = ['mandatory', 'optional', 'default', 'last_optional', 'ext_add', 'ext_add_mand', 'ext_group', 'ext_empty']
CHOICE_ROLES = ['alt', 'alt_ext', 'ext_alt']
OF_ROLES = ['elem', 'elem_sized', 'elem_sized_ext']


def roles_of(kind):
    return SEQ_ROLES if kind in ('SEQUENCE', 'SET') else CHOICE_ROLES if kind == 'CHOICE' else OF_ROLES


def _legal(case):
    mod = Module('X', case.tagdefault, OrderedDict([('Main', _rename_refs(case.main, 'Main'))] +
                                                  [('Main' + k, _rename_refs(v, 'Main')) for k, v in case.defs.items()]))
    try:
        return T.legal(mod)
    except RecursionError:
        return False


def cases(tier='quick', families=None):
    cat = leaf_catalogue(tier)
    catd = dict(cat)
    out = []
    fam = lambda f: families is None or f in families
    # ---- S0: every leaf top-level, untagged and [5]-tagged implicit/explicit
    if fam('S0'):
        for lab, fn in cat:
            out.append(Case('S0', lab, 'IMPLICIT', fn()))
            out.append(Case('S0', lab + '/[5]I', 'IMPLICIT', tagged(fn(), (2, 5, 'IMPLICIT'))))
            out.append(Case('S0', lab + '/[5]E', 'IMPLICIT', tagged(fn(), (2, 5, 'EXPLICIT'))))
        out.append(Case('S0', 'INT/[A31]E[5]E', 'EXPLICIT', tagged(Type('REF', ref='@a'), (1, 31, None)),
                        OrderedDict([('a', tagged(Type('INTEGER'), (2, 5, None)))])))
        # tag numbers at the thresholds of the identifier-octet forms: BER low/high tag number (30/31), OER one-octet form (62/63),
        # one/two continuation octets (127/128, 16383/16384); as CHOICE alternatives, SEQUENCE members and top-level tags
        for cls, cname in ((2, 'C'), (1, 'A'), (3, 'P')):
            for N in (30, 62, 63, 127, 16383):
                if tier == 'quick' and cls == 3 and N not in (63,):
                    continue
                ch = Type('CHOICE', root=[Member('a', tagged(Type('INTEGER'), (cls, N, None))), Member('b', tagged(Type('BOOLEAN'), (cls, N + 1, None))),
                                           Member('c', tagged(Type('NULL'), (cls, 0, None)))])
                out.append(Case('S0', 'tagnum/CHOICE/%s%d' % (cname, N), 'IMPLICIT', ch))
                sq = Type('SEQUENCE', root=[Member('a', tagged(Type('INTEGER'), (cls, N, None)), optional=True), Member('b', tagged(Type('BOOLEAN'), (cls, N + 1, None))),
                                             Member('w', tagged(Type('CHOICE', root=[Member('x', tagged(Type('INTEGER'), (cls, N, None))), Member('y', tagged(Type('NULL'), (cls, N + 1, None)))]), (cls, N + 2, 'EXPLICIT')))])
                out.append(Case('S0', 'tagnum/SEQUENCE/%s%d' % (cname, N), 'IMPLICIT', sq))
                out.append(Case('S0', 'tagnum/top/%s%d' % (cname, N + 1), 'IMPLICIT', tagged(Type('OCTET STRING'), (cls, N + 1, 'IMPLICIT'))))
    # ---- S1: one leaf x one role x tagging mode, in a 3-member container
    if fam('S1'):
        if tier == 'quick':
            modes = [('AUTOMATIC', None)]
            leafs = [l for l, _ in cat]
            kinds_roles = [('SEQUENCE', 'optional'), ('SEQUENCE', 'ext_add'), ('CHOICE', 'alt'), ('SEQUENCE OF', 'elem'), ('SEQUENCE', 'default')]
        else:
            modes = [('AUTOMATIC', None), ('EXPLICIT', (2, 1, None)), ('IMPLICIT', (2, 1, None)), ('IMPLICIT', (2, 1, 'EXPLICIT')),
                     ('IMPLICIT', (1, 30, None)), ('EXPLICIT', (2, 31, 'IMPLICIT')), ('IMPLICIT', None), ('EXPLICIT', None)]
            leafs = [l for l, _ in cat]
            kinds_roles = [(k, r) for k in ('SEQUENCE', 'SET', 'CHOICE', 'SEQUENCE OF', 'SET OF') for r in roles_of(k)]
        for lab in leafs:
            for kind, role in kinds_roles:
                for td, tm in modes:
                    if kind in ('SEQUENCE OF', 'SET OF') and tm is not None:
                        continue
                    dflt = None
                    if role == 'default':
                        if lab not in DEFAULTABLE:
                            continue
                        dflt = DEFAULTABLE[lab]
                    c = Case('S1', '%s/%s/%s/%s/%s' % (lab, kind, role, td, _tm(tm)), td, _container_with(role, kind, catd[lab](), lab, tm, dflt))
                    if c.main is not None and _legal(c):
                        out.append(c)
                    if role == 'default' and lab in MORE_DEFAULTS and (tier != 'quick' or kind == 'SEQUENCE') and td == 'AUTOMATIC':
                        # DEFAULT values at the boundaries where the number of content octets / the sign octet changes
                        for dv in MORE_DEFAULTS[lab]:
                            c = Case('S1', '%s/%s/default=%s/%s/%s' % (lab, kind, dv, td, _tm(tm)), td, _container_with(role, kind, catd[lab](), lab, tm, dv))
                            if c.main is not None and _legal(c):
                                out.append(c)
    # ---- S2: container in container
    if fam('S2'):
        modes = ['AUTOMATIC'] if tier == 'quick' else ['AUTOMATIC', 'EXPLICIT', 'IMPLICIT']
        core = CORE if tier != 'quick' else CORE[:4]
        pairs = [(core[i], core[(i + 1) % len(core)]) for i in range(len(core))]
        for outer in ('SEQUENCE', 'SET', 'CHOICE', 'SEQUENCE OF', 'SET OF'):
            for inner in ('SEQUENCE', 'SET', 'CHOICE', 'SEQUENCE OF', 'SET OF'):
                for orole in ([r for r in roles_of(outer) if r != 'default'] if tier != 'quick' else roles_of(outer)[:2]):
                    for (l1, l2) in (pairs if tier != 'quick' else pairs[:2]):
                        for td in (modes if tier != 'quick' or (l1, l2) != pairs[0] else ['AUTOMATIC', 'EXPLICIT']):
                            # quick: one leaf pair also under EXPLICIT TAGS with context tags, so that constructed types with a
                            # tag chain of two (the shape behind several BER length/EOC accounting paths) are in every run
                            tm = None if td == 'AUTOMATIC' else (2, 1, None)
                            if inner in ('SEQUENCE', 'SET'):
                                it = Type(inner, root=[Member('p', _t(catd[l1](), tm, 5)), Member('q', _t(catd[l2](), tm, 6), optional=True)])
                            elif inner == 'CHOICE':
                                it = Type('CHOICE', root=[Member('p', _t(catd[l1](), tm, 5)), Member('q', _t(catd[l2](), tm, 6))])
                            else:
                                it = Type(inner, elem=catd[l1]())
                            if outer in ('SEQUENCE OF', 'SET OF') and tm is not None:
                                tm2 = None
                            else:
                                tm2 = tm
                            main = _container_with(orole, outer, it, 'inner', tm2)
                            c = Case('S2', '%s[%s]/%s(%s,%s)/%s' % (outer, orole, inner, l1, l2, td), td, main)
                            if main is not None and _legal(c):
                                out.append(c)
    # ---- S3 (thorough): depth-3 chains
    if fam('S3') and tier != 'quick':
        ks = ('SEQUENCE', 'SET', 'CHOICE', 'SEQUENCE OF', 'SET OF')
        for a, b, c3 in itertools.product(ks, ks, ks):
            t3 = _wrap(c3, Type('INTEGER', cons=Cons(0, 255)))
            t2 = _wrap(b, t3)
            t1 = _wrap(a, t2)
            out.append(Case('S3', '%s>%s>%s' % (a, b, c3), 'AUTOMATIC', t1))
    # ---- S4: optional-run patterns
    if fam('S4'):
        wmax = 3 if tier == 'quick' else 4
        kinds = [Type('BOOLEAN'), Type('INTEGER'), Type('OCTET STRING'), Type('NULL')]
        for w in range(1, wmax + 1):
            for mask in range(1 << w):
                for extpos in [None] + list(range(w + 1)):
                    if extpos is not None and tier == 'quick' and extpos not in (w, w - 1):
                        continue
                    ms = []
                    for i in range(w):
                        ms.append(Member('m%d' % i, copy.copy(kinds[i]), optional=bool(mask >> i & 1)))
                    if extpos is None:
                        t = Type('SEQUENCE', root=ms)
                    else:
                        adds = ms[extpos:]
                        for a in adds:
                            a.optional = True
                        t = Type('SEQUENCE', root=ms[:extpos], ext=True, adds=adds)
                        if not t.root:
                            continue
                    out.append(Case('S4', 'w%d/mask%d/ext%s' % (w, mask, extpos), 'AUTOMATIC', t))
        # the member-lookup shortcuts of the SEQUENCE BER decoder: a run of more than 8 OPTIONAL members (linear scan limited to
        # 8, then bsearch) and an untagged CHOICE (tag -1) among the skippable members (bsearch at once)
        ms = [Member('o%d' % i, copy.copy(kinds[i % 4]), optional=True) for i in range(9)] + [Member('last', Type('OCTET STRING'))]
        out.append(Case('S4', 'optrun9', 'AUTOMATIC', Type('SEQUENCE', root=ms)))
        for td in ('EXPLICIT', 'IMPLICIT'):
            ch = Type('CHOICE', root=[Member('a', Type('INTEGER')), Member('b', Type('BOOLEAN'))])
            out.append(Case('S4', 'optchoice/' + td, td, Type('SEQUENCE', root=[Member('id', ch, optional=True), Member('body', Type('OCTET STRING')),
                                                                                   Member('n', Type('INTEGER', cons=Cons(0, 7)))])))
            ch2 = Type('CHOICE', root=[Member('a', Type('INTEGER')), Member('b', Type('BOOLEAN'))])
            out.append(Case('S4', 'optchoice2/' + td, td, Type('SEQUENCE', root=[Member('f', Type('NULL'), optional=True), Member('id', ch2, optional=True),
                                                                                    Member('body', Type('OCTET STRING'), optional=True), Member('n', Type('REAL'))])))
        # extension additions: exactly 8 and 9 OPTIONAL additions (the presence bitmap fills / overflows its last octet), and DEFAULT
        # additions (an addition that is present but equal to its DEFAULT must not count as present)
        for na in (8, 9):
            out.append(Case('S4', 'extadds%d' % na, 'AUTOMATIC', Type('SEQUENCE', root=[Member('a', Type('INTEGER', cons=Cons(0, 7)))], ext=True,
                                                                         adds=[Member('e%d' % i, copy.copy(kinds[i % 4]), optional=True) for i in range(na)])))
        out.append(Case('S4', 'extdefault', 'AUTOMATIC', Type('SEQUENCE', root=[Member('a', Type('BOOLEAN'))], ext=True, adds=[
            Member('d', Type('INTEGER'), has_default=True, default=7), Member('e', Type('BOOLEAN'), optional=True),
            Member('s', Type('IA5String'), has_default=True, default='dflt')])))
        out.append(Case('S4', 'extdefault1', 'AUTOMATIC', Type('SEQUENCE', root=[Member('a', Type('BOOLEAN'))], ext=True, adds=[
            Member('d', Type('INTEGER'), has_default=True, default=7)])))
    # ---- S5: recursion knots
    if fam('S5'):
        out.append(Case('S5', 'rec_optional', 'AUTOMATIC',
                        Type('SEQUENCE', root=[Member('r', Type('REF', ref='@'), optional=True), Member('v', Type('INTEGER'))])))
        out.append(Case('S5', 'rec_seqof', 'AUTOMATIC',
                        Type('SEQUENCE', root=[Member('kids', Type('SEQUENCE OF', elem=Type('REF', ref='@'))), Member('v', Type('BOOLEAN'))])))
        out.append(Case('S5', 'rec_choice', 'AUTOMATIC',
                        Type('CHOICE', root=[Member('leaf', Type('INTEGER', cons=Cons(0, 255))), Member('node', Type('SEQUENCE', root=[
                            Member('l', Type('REF', ref='@')), Member('r', Type('REF', ref='@'), optional=True)]))])))
        out.append(Case('S5', 'rec_setof_ext', 'EXPLICIT',
                        Type('SEQUENCE', root=[Member('v', tagged(Type('INTEGER'), (2, 0, None)))], ext=True,
                             adds=[Member('kids', tagged(Type('SET OF', elem=Type('REF', ref='@')), (2, 1, None)), optional=True)])))
        # untagged CHOICEs nested in untagged CHOICEs (the tag of the value is only known at run time): alone, and as a component of
        # a SET whose DER order then depends on the selected alternative
        def _uch3():
            return Type('CHOICE', root=[Member('a', Type('CHOICE', root=[Member('b', Type('CHOICE', root=[Member('x', Type('INTEGER')), Member('y', Type('BOOLEAN'))])),
                                                                          Member('n', Type('NULL'))])), Member('r', Type('REAL'))])
        out.append(Case('S5', 'uchoice3', 'EXPLICIT', _uch3()))
        out.append(Case('S5', 'set_uchoice2', 'EXPLICIT', Type('SET', root=[
            Member('c', Type('CHOICE', root=[Member('i', Type('CHOICE', root=[Member('x', tagged(Type('INTEGER'), (2, 3, None))), Member('y', tagged(Type('BOOLEAN'), (2, 1, None)))])),
                                             Member('z', tagged(Type('NULL'), (2, 5, None)))])),
            Member('s', tagged(Type('OCTET STRING'), (2, 0, None))), Member('t', tagged(Type('BOOLEAN'), (2, 4, None)))])))
        out.append(Case('S5', 'seq_uchoice3', 'EXPLICIT', Type('SEQUENCE', root=[Member('f', Type('OCTET STRING')), Member('u', _uch3())])))
        # identifiers that are prefixes of one another (and of the XER value tags true/false), the longer one first: name matching by
        # prefix is the shortcut to guard
        out.append(Case('S5', 'prefixnames/SEQUENCE', 'AUTOMATIC', Type('SEQUENCE', root=[
            Member('nameSuffix', Type('INTEGER'), optional=True), Member('name', Type('BOOLEAN')), Member('trueColor', Type('BOOLEAN')),
            Member('falsePositive', Type('BOOLEAN'), optional=True), Member('n', Type('NULL'), optional=True)])))
        out.append(Case('S5', 'prefixnames/CHOICE', 'AUTOMATIC', Type('CHOICE', root=[
            Member('counter64', Type('INTEGER')), Member('counter', Type('INTEGER', cons=Cons(0, 7))), Member('c', Type('BOOLEAN'))])))
        out.append(Case('S5', 'prefixnames/SET', 'AUTOMATIC', Type('SET', root=[
            Member('abc', Type('INTEGER'), optional=True), Member('ab', Type('BOOLEAN')), Member('a', Type('OCTET STRING'), optional=True)])))
    # ---- S6: wire-boundary shapes
    if fam('S6'):
        tagnums = [30, 31, 127, 128, 16383, 16384, (1 << 21) - 1, 1 << 28, (1 << 30) - 1]
        for n in tagnums:
            for cls in ((2, 1) if tier == 'quick' else (1, 2, 3)):
                out.append(Case('S6', 'tag%d.%d/I' % (cls, n), 'IMPLICIT', tagged(Type('INTEGER'), (cls, n, 'IMPLICIT'))))
                out.append(Case('S6', 'tag%d.%d/E' % (cls, n), 'IMPLICIT', tagged(Type('OCTET STRING'), (cls, n, 'EXPLICIT'))))
            out.append(Case('S6', 'tagchoice%d' % n, 'IMPLICIT', Type('CHOICE', root=[
                Member('a', tagged(Type('INTEGER'), (2, n, None))), Member('b', tagged(Type('BOOLEAN'), (1, n, None))),
                Member('c', tagged(Type('NULL'), (3, n, None)))])))
        ks = [1, 7, 8, 15, 16, 24, 25, 31, 32, 63, 64] if tier == 'quick' else list(range(1, 65))
        for k in ks:
            for ub in ((1 << k) - 2, (1 << k) - 1, 1 << k):
                if ub < 1 or ub > (1 << 64) - 1:
                    continue
                out.append(Case('S6', 'range0_%d' % ub, 'IMPLICIT', Type('INTEGER', cons=Cons(0, ub))))
            if k <= 63:
                out.append(Case('S6', 'ranges%d' % k, 'IMPLICIT', Type('INTEGER', cons=Cons(-(1 << k), (1 << k) - 1))))
                out.append(Case('S6', 'rangeoff%d' % k, 'IMPLICIT', Type('INTEGER', cons=Cons(-5, (1 << k) - 6))))
        for lab in ('OCTS', 'BITS', 'IA5String', 'OCTS_S0_65535', 'UTF8String', 'BMPString', 'NumericString'):
            out.append(Case('S6', 'long/' + lab, 'IMPLICIT', catd[lab]()))
        out.append(Case('S6', 'long/OCTS_S65536', 'IMPLICIT', Type('OCTET STRING', size=Cons(65536, 65536))))
        out.append(Case('S6', 'long/OCTS_S0_65536', 'IMPLICIT', Type('OCTET STRING', size=Cons(0, 65536))))
        out.append(Case('S6', 'long/SEQOF_BOOL', 'IMPLICIT', Type('SEQUENCE OF', elem=Type('BOOLEAN'))))
        out.append(Case('S6', 'long/SETOF_INT8', 'IMPLICIT', Type('SET OF', elem=Type('INTEGER', cons=Cons(0, 255)))))
        out.append(Case('S6', 'long/SEQOF_INT8_S0_65535', 'IMPLICIT', Type('SEQUENCE OF', elem=Type('INTEGER', cons=Cons(0, 255)), size=Cons(0, 65535))))
    return out


def _tm(tm):
    return 'none' if tm is None else '%d.%d.%s' % tm


def _t(t, tm, n):
    if tm is None:
        return t
    return tagged(t, (tm[0], n, tm[2]))


def _wrap(kind, inner):
    if kind in ('SEQUENCE', 'SET'):
        return Type(kind, root=[Member('a', Type('BOOLEAN'), optional=True), Member('b', inner)])
    if kind == 'CHOICE':
        return Type('CHOICE', root=[Member('x', Type('NULL')), Member('y', inner)])
    return Type(kind, elem=inner)


# ------------------------------------------------------------------ packing into modules

def _rename_refs(t, name):
    """deep copy with REF '@suffix' rewritten to concrete names"""
    t = copy.copy(t)
    if t.kind == 'REF':
        t.ref = name + t.ref[1:] if t.ref.startswith('@') else t.ref
        return t
    if t.kind in ('SEQUENCE', 'SET', 'CHOICE'):
        def mm(m):
            m2 = copy.copy(m)
            m2.type = _rename_refs(m.type, name)
            return m2
        t.root = [mm(m) for m in t.root]
        t.adds = [Group([mm(m) for m in a.members]) if isinstance(a, Group) else mm(a) for a in t.adds]
    if t.kind in ('SEQUENCE OF', 'SET OF'):
        t.elem = _rename_refs(t.elem, name)
    return t


def pack(cases, per_module=60, prefix='T'):
    """assign names, group by tag default; returns list of (Module, [Case])"""
    by = OrderedDict()
    for c in cases:
        by.setdefault(c.tagdefault, []).append(c)
    mods = []
    n = 0
    for td, cs in by.items():
        for i in range(0, len(cs), per_module):
            chunk = cs[i:i + per_module]
            types = OrderedDict()
            for c in chunk:
                c.name = '%s%d' % (prefix, n)
                n += 1
                types[c.name] = _rename_refs(c.main, c.name)
                for suf, t in c.defs.items():
                    types[c.name + suf] = _rename_refs(t, c.name)
            m = Module('M%d%s' % (len(mods), td[0]), td, types)
            mods.append((m, chunk))
    return mods
