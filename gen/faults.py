"""Single-fault injection catalogue for C11 (and, as inputs that must either be rejected or compile, for C10).

The space is enumerated, not listed by hand: for every container kind and every *layout* of root components,
extension marker, extension additions and second root, every pair of positions receives the same identifier; for
ENUMERATED every pair of positions receives the same name or the same value; a dangling reference is placed at
every position.  Each layout also appears unmodified as a control that must be accepted.
Returns (label, module text, expect_accept).
"""
import itertools

MT = ['INTEGER', 'BOOLEAN', 'NULL', 'OCTET STRING', 'REAL', 'IA5String', 'BIT STRING']


def _layouts(kind):
    """(n_root1, has_ext, n_adds, n_root2)"""
    out = []
    for n1 in (1, 2, 3):
        out.append((n1, False, 0, 0))
        for na in (0, 1, 2):
            out.append((n1, True, na, 0))
            if kind != 'CHOICE':
                out.append((n1, True, na, 1))
    return out


def _render(kind, names, types, layout, optional_adds=True):
    n1, ext, na, n2 = layout
    parts = []
    i = 0
    for _ in range(n1):
        parts.append('%s %s' % (names[i], types[i])); i += 1
    if ext:
        parts.append('...')
        for _ in range(na):
            parts.append('%s %s%s' % (names[i], types[i], ' OPTIONAL' if kind != 'CHOICE' and optional_adds else '')); i += 1
        if n2:
            parts.append('...')
            for _ in range(n2):
                parts.append('%s %s' % (names[i], types[i])); i += 1
    return 'M DEFINITIONS AUTOMATIC TAGS ::= BEGIN\nT ::= %s { %s }\nEND\n' % (kind, ', '.join(parts))


def fault_modules(tier='quick'):
    out = []
    for kind in ('SEQUENCE', 'SET', 'CHOICE'):
        for layout in _layouts(kind):
            n = layout[0] + layout[2] + layout[3]
            if n < 1:
                continue
            names = ['m%d' % i for i in range(n)]
            types = MT[:n]
            lab = '%s/r%d%s%s' % (kind, layout[0], ('e%d' % layout[2]) if layout[1] else '', ('s%d' % layout[3]) if layout[3] else '')
            out.append(('ok_layout:' + lab, _render(kind, names, types, layout), True))
            for i, j in itertools.combinations(range(n), 2):
                nm = list(names)
                nm[j] = nm[i]
                out.append(('dup_identifier:%s/%d=%d' % (lab, i, j), _render(kind, nm, types, layout), False))
            for i in range(n):
                ty = list(types)
                ty[i] = 'Undefined'
                out.append(('dangling_ref:%s/%d' % (lab, i), _render(kind, names, ty, layout), False))
    # nested scope: the same identifier in different scopes is fine, a duplicate inside the inner scope is not
    for outer, inner in itertools.product(('SEQUENCE', 'SET', 'CHOICE'), repeat=2):
        for seqof in (False, True):
            it = '%s { a INTEGER, ..., %s BOOLEAN }' % (inner, '%s')
            wrap = ('SEQUENCE OF ' if seqof else '')
            for nm, ok in (('b', True), ('a', False)):
                text = 'M DEFINITIONS AUTOMATIC TAGS ::= BEGIN\nT ::= %s { a %s%s, b NULL }\nEND\n' % (outer, wrap, it % nm)
                out.append(('%s:nested/%s/%s%s' % ('ok_scopes' if ok else 'dup_identifier', outer, 'of-' if seqof else '', inner), text, ok))
    # ENUMERATED: names and values at every pair of positions over root / extension
    for nr in (1, 2, 3):
        for ext, na in ((False, 0), (True, 0), (True, 1), (True, 2)):
            n = nr + na
            def ren(names, vals):
                items = ['%s(%d)' % (names[i], vals[i]) for i in range(nr)]
                if ext:
                    items.append('...')
                    items += ['%s(%d)' % (names[i], vals[i]) for i in range(nr, n)]
                return 'M DEFINITIONS ::= BEGIN\nT ::= ENUMERATED { %s }\nEND\n' % ', '.join(items)
            names = ['e%c' % (97 + i) for i in range(n)]
            vals = list(range(n))
            lab = 'ENUMERATED/r%d%s' % (nr, ('e%d' % na) if ext else '')
            out.append(('ok_layout:' + lab, ren(names, vals), True))
            for i, j in itertools.combinations(range(n), 2):
                nm = list(names); nm[j] = nm[i]
                out.append(('dup_enum_name:%s/%d=%d' % (lab, i, j), ren(nm, vals), False))
                vv = list(vals); vv[j] = vv[i]
                out.append(('dup_enum_value:%s/%d=%d' % (lab, i, j), ren(names, vv), False))
    # named numbers / named bits
    for kind, fmt in (('INTEGER', 'T ::= INTEGER { %s }'), ('BIT STRING', 'T ::= BIT STRING { %s }')):
        for n in (2, 3):
            names = ['n%c' % (97 + i) for i in range(n)]
            vals = list(range(n))
            ren = lambda names, vals: 'M DEFINITIONS ::= BEGIN\n' + fmt % ', '.join('%s(%d)' % (a, b) for a, b in zip(names, vals)) + '\nEND\n'
            out.append(('ok_layout:%s/named%d' % (kind, n), ren(names, vals), True))
            for i, j in itertools.combinations(range(n), 2):
                nm = list(names); nm[j] = nm[i]
                out.append(('dup_named_identifier:%s/%d=%d' % (kind, i, j), ren(nm, vals), False))
    # type level
    out.append(('dup_type_name', 'M DEFINITIONS ::= BEGIN\nT ::= INTEGER\nT ::= BOOLEAN\nEND\n', False))
    out.append(('dangling_ref_top', 'M DEFINITIONS ::= BEGIN\nT ::= Undefined\nEND\n', False))
    for k in ('SEQUENCE OF', 'SET OF'):
        out.append(('dangling_ref:%s' % k, 'M DEFINITIONS ::= BEGIN\nT ::= %s Undefined\nEND\n' % k, False))
    out.append(('ok_forward_ref', 'M DEFINITIONS ::= BEGIN\nT ::= SEQUENCE { a Later }\nLater ::= INTEGER\nEND\n', True))
    return out
