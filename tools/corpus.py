"""Corpus builder shared by the codec checks: shapes -> modules -> asn1c -> compiled driver per module."""
import os, shutil, sys
from concurrent.futures import ThreadPoolExecutor
from tools import build, common
from gen import typegen, values, features
from ref import asn1ast as A, ber

DRV = ['drv', 'ledger', 'canon', 'mut', 'chunk', 'life', 'encapi', 'xform']


class Batch:
    def __init__(self, mod, cases, exe, wdir, text):
        self.mod, self.cases, self.exe, self.dir, self.text = mod, cases, exe, wdir, text


def _build_one(mod, cases, wdir, flavour, opts, defines, drv):
    text = A.module_text(mod)
    names = [c.name for c in cases]
    g = build.gen_types(text, names, wdir, opts=opts, flavour=flavour, defines=defines)
    objs = build.drv_objects(drv, flavour, defines=defines)
    exe = build.link(os.path.join(wdir, 'drv'), objs, g)
    shutil.rmtree(os.path.join(wdir, 'gen'), ignore_errors=True)
    for f in ('libgen.a',):
        try:
            os.unlink(os.path.join(wdir, f))
        except OSError:
            pass
    return Batch(mod, cases, exe, wdir, text)


def build_corpus(cases, workdir, flavour='asan', opts=(), defines=(), per_module=60, drv=DRV, prefix='T'):
    """returns (batches, failures) ; failures = list of (case, stage/err) for cases that could not be built alone"""
    shutil.rmtree(workdir, ignore_errors=True)
    os.makedirs(workdir)
    build.asn1c()
    build.skel_lib(flavour, defines)
    build.drv_objects(drv, flavour, defines=defines)
    mods = typegen.pack(cases, per_module, prefix)
    batches, failures = [], []

    def work(i_mc):
        i, (mod, cs) = i_mc
        wdir = os.path.join(workdir, 'b%d' % i)
        try:
            return [_build_one(mod, cs, wdir, flavour, opts, defines, drv)], []
        except build.BuildError as e:
            # bisect to single-type modules so that one bad type does not hide its neighbours
            shutil.rmtree(wdir, ignore_errors=True)
            bs, fs = [], []
            for j, c in enumerate(cs):
                sub = typegen.pack([c], 1, prefix)
                # keep the original name
                m1, c1 = sub[0]
                name = mod_name_fix(m1, c, cs[j].name if False else None)
                w2 = os.path.join(workdir, 'b%d_%d' % (i, j))
                try:
                    bs.append(_build_one(m1, c1, w2, flavour, opts, defines, drv))
                except build.BuildError as e2:
                    shutil.rmtree(w2, ignore_errors=True)
                    fs.append((c, str(e2)[:1500], A.module_text(m1)))
            return bs, fs
    with ThreadPoolExecutor(4) as ex:
        for bs, fs in ex.map(work, list(enumerate(mods))):
            batches += bs
            failures += fs
    return batches, failures


def mod_name_fix(m1, c, _):
    return c.name


def case_values(batch, case, two=False, big=False):
    """deduplicated (by reference DER) value list of one case: [(value, der_bytes)]"""
    mod = batch.mod
    t = mod.types[case.name]
    if big:
        vals = values.leaf_values(mod, t, big=True) if mod.resolve(t).kind not in A.CONSTRUCTED else _big_container(mod, t)
    else:
        vals = values.container_values(mod, t, two)
    seen, out = set(), []
    for v in vals:
        d = ber.der(mod, t, v)
        if d in seen:
            continue
        seen.add(d)
        out.append((v, d))
    return out


def _big_container(mod, t):
    bt = mod.resolve(t)
    out = []
    if bt.kind in ('SEQUENCE OF', 'SET OF'):
        ev = values.leaf_values(mod, bt.elem)
        sc = A.size_cons(mod, t)
        for n in (0, 1, 127, 128, 16383, 16384, 16385, 32768, 65535, 65536, 65537):
            if sc is not None and not sc.ext and not sc.contains(n):
                continue
            out.append([ev[i % len(ev)] for i in range(n)])
    else:
        out = values.container_values(mod, t)
    return out
