"""Corpus builder shared by the codec checks: shapes -> modules -> asn1c -> compiled driver per module."""
import os, shutil, sys
from concurrent.futures import ThreadPoolExecutor
from tools import build, common
from gen import typegen, values, features
from ref import asn1ast as A, ber

DRV = ['drv', 'ledger', 'canon', 'mut', 'chunk', 'life', 'encapi', 'xform']


class Batch:
    def __init__(self, mod, cases, exe, wdir, text):
        self.mod, self.cases, self.exe, self.dir, self.text = mod, cases, exe, wdir, text


def _build_one(mod, cases, wdir, flavour, opts, defines, drv, extra_cflags=(), cxx_headers=False):
    text = A.module_text(mod)
    names = [c.name for c in cases]
    g = build.gen_types(text, names, wdir, opts=opts, flavour=flavour, defines=defines, extra_cflags=extra_cflags)
    if cxx_headers:
        build.cxx_check_headers(g['gen'])
    objs = build.drv_objects(drv, flavour, defines=defines)
    exe = build.link(os.path.join(wdir, 'drv'), objs, g)
    shutil.rmtree(os.path.join(wdir, 'gen'), ignore_errors=True)
    for f in ('libgen.a',):
        try:
            os.unlink(os.path.join(wdir, f))
        except OSError:
            pass
    return Batch(mod, cases, exe, wdir, text)


def build_corpus(cases, workdir, flavour='asan', opts=(), defines=(), per_module=60, drv=DRV, prefix='T', extra_cflags=(), cxx_headers=False):
    """returns (batches, failures) ; failures = list of (case, stage/err) for cases that could not be built alone"""
    shutil.rmtree(workdir, ignore_errors=True)
    os.makedirs(workdir)
    build.asn1c()
    build.skel_lib(flavour, defines)
    build.drv_objects(drv, flavour, defines=defines)
    mods = typegen.pack(cases, per_module, prefix)
    batches, failures = [], []

    counter = [0]

    def build_rec(cs, tag):
        """build one module for cs; on failure split in halves (a single bad type costs ~2*log2(n) extra builds)"""
        sub = typegen.pack(cs, len(cs), prefix)
        m1, c1 = sub[0]
        wdir = os.path.join(workdir, 'b%s' % tag)
        try:
            return [_build_one(m1, c1, wdir, flavour, opts, defines, drv, extra_cflags, cxx_headers)], []
        except build.BuildError as e:
            shutil.rmtree(wdir, ignore_errors=True)
            if len(cs) == 1:
                return [], [(cs[0], str(e)[:1500], A.module_text(m1))]
            h = len(cs) // 2
            b1, f1 = build_rec(cs[:h], tag + 'a')
            b2, f2 = build_rec(cs[h:], tag + 'b')
            return b1 + b2, f1 + f2

    def work(i_mc):
        i, (mod, cs) = i_mc
        return build_rec(cs, str(i))
    with ThreadPoolExecutor(4) as ex:
        for bs, fs in ex.map(work, list(enumerate(mods))):
            batches += bs
            failures += fs
    return batches, failures


def case_values(batch, case, two=False, big=False):
    """deduplicated (by reference DER) value list of one case: [(value, der_bytes)]"""
    mod = batch.mod
    t = mod.types[case.name]
    if big:
        vals = values.leaf_values(mod, t, big=True) if mod.resolve(t).kind not in A.CONSTRUCTED else _big_container(mod, t)
    else:
        vals = values.container_values(mod, t, two)
    seen, out = set(), []
    for v in vals:
        d = ber.der(mod, t, v)
        if d in seen:
            continue
        seen.add(d)
        out.append((v, d))
    return out


def _big_container(mod, t):
    bt = mod.resolve(t)
    out = []
    if bt.kind in ('SEQUENCE OF', 'SET OF'):
        ev = values.leaf_values(mod, bt.elem)
        sc = A.size_cons(mod, t)
        for n in (0, 1, 127, 128, 16383, 16384, 16385, 32768, 65535, 65536, 65537):
            if sc is not None and not sc.ext and not sc.contains(n):
                continue
            out.append([ev[i % len(ev)] for i in range(n)])
    else:
        out = values.container_values(mod, t)
    return out


# ---------------------------------------------------------------- per-batch parallel map (fork)
_BATCHES = None
_FN = None


def _call(i):
    return _FN(_BATCHES[i])


def map_batches(fn, batches, procs=None):
    """run fn(batch) in forked worker processes (one task per batch); returns results in order"""
    import multiprocessing as mp
    global _BATCHES, _FN
    _BATCHES, _FN = batches, fn
    procs = procs or build.JOBS
    if len(batches) <= 1 or procs <= 1:
        return [fn(b) for b in batches]
    ctx = mp.get_context('fork')
    with ctx.Pool(min(procs, len(batches))) as pool:
        return pool.map(_call, range(len(batches)), chunksize=1)
