"""Out-of-tree builder: everything is rebuilt from /repo's *current working tree* into /verif/build.

Artifacts are keyed by a content hash of every input (sources, headers, flags), so a source edit in
/repo always produces a new artifact and identical inputs are never compiled twice.
"""
import hashlib, os, subprocess, sys, shutil, glob, json, time, threading
from concurrent.futures import ThreadPoolExecutor

REPO = os.environ.get('VERIF_REPO', '/repo')
VERIF = os.path.dirname(os.path.dirname(os.path.abspath(__file__)))
BUILD = os.path.join(VERIF, 'build')
JOBS = int(os.environ.get('VERIF_JOBS', '16'))
CC = 'gcc'

COMPILER_DIRS = ['libasn1common', 'libasn1parser', 'libasn1print', 'libasn1fix', 'libasn1compiler']
SKEL_EXCLUDE = {'converter-example.c'}

FLAVOURS = {
    # name: (cflags, ldflags)
    # nonnull-attribute is switched off: fwrite(NULL,1,0,f) / memcpy(p,NULL,0) are pedantic, not what C04 means
    'asan': (['-O1', '-g', '-fsanitize=address,undefined', '-fno-sanitize=nonnull-attribute', '-fno-sanitize-recover=undefined',
              '-fno-omit-frame-pointer'], ['-fsanitize=address,undefined']),
    'plain': (['-O1', '-g'], []),
    'instr': (['-O1', '-g', '-finstrument-functions'], []),
    'tsan': (['-O1', '-g', '-fsanitize=thread'], ['-fsanitize=thread']),
}


class BuildError(Exception):
    pass


_CACHE_LOCK = threading.RLock()   # cached artefacts (asn1c, skeleton libs, driver objects) are built by one thread at a time


def _locked(fn):
    def w(*a, **kw):
        with _CACHE_LOCK:
            return fn(*a, **kw)
    w.__name__ = fn.__name__
    return w


def sha(*parts):
    h = hashlib.sha256()
    for p in parts:
        if isinstance(p, str):
            p = p.encode()
        h.update(p)
        h.update(b'\0')
    return h.hexdigest()[:20]


def file_hash(paths):
    h = hashlib.sha256()
    for p in sorted(paths):
        h.update(p.encode())
        h.update(b'\0')
        with open(p, 'rb') as f:
            h.update(f.read())
        h.update(b'\0')
    return h.hexdigest()[:20]


def run(cmd, **kw):
    return subprocess.run(cmd, stdout=subprocess.PIPE, stderr=subprocess.PIPE, **kw)


def _compile_many(jobs):
    """jobs: list of (src, obj, flags). Compiles in parallel; raises BuildError on first failure."""
    def one(j):
        src, obj, flags = j
        r = run([CC] + flags + ['-c', src, '-o', obj])
        return (j, r)
    errs = []
    with ThreadPoolExecutor(JOBS) as ex:
        for j, r in ex.map(one, jobs):
            if r.returncode != 0:
                errs.append((j[0], r.stderr.decode(errors='replace')))
    if errs:
        raise BuildError('compile failed: %s\n%s' % (errs[0][0], errs[0][1][:4000]))


CONFIG_FALLBACK = """
#define HAVE_128_BIT_INT 1
#define HAVE_DECL_STRCASECMP 1
#define HAVE_DECL_VASPRINTF 0
#define HAVE_INTTYPES_H 1
#define HAVE_MKSTEMPS 1
#define HAVE_STDINT_H 1
#define HAVE_STDIO_H 1
#define HAVE_STDLIB_H 1
#define HAVE_STRINGS_H 1
#define HAVE_STRING_H 1
#define HAVE_STRTOIMAX 1
#define HAVE_STRTOLL 1
#define HAVE_SYMLINK 1
#define HAVE_SYS_PARAM_H 1
#define HAVE_SYS_STAT_H 1
#define HAVE_SYS_TYPES_H 1
#define HAVE_TIMEGM 1
#define HAVE_UNISTD_H 1
#define PACKAGE "asn1c"
#define PACKAGE_VERSION "0.9.29"
#define VERSION "0.9.29"
#define SIZEOF_VOID_P 8
#define STDC_HEADERS 1
#define YYTEXT_POINTER 1
"""


def compiler_sources():
    srcs = []
    for d in COMPILER_DIRS:
        for f in sorted(glob.glob(os.path.join(REPO, d, '*.c'))):
            b = os.path.basename(f)
            if b.startswith('check_'):
                continue
            srcs.append(f)
    srcs.append(os.path.join(REPO, 'asn1c', 'asn1c.c'))
    return srcs


def compiler_headers():
    hs = []
    for d in COMPILER_DIRS + ['asn1c']:
        hs += glob.glob(os.path.join(REPO, d, '*.h'))
    cfg = os.path.join(REPO, 'config.h')
    if os.path.exists(cfg):
        hs.append(cfg)
    return hs


@_locked
def asn1c(san=False):
    """Build the asn1c compiler from the current tree; returns path of the executable."""
    srcs = compiler_sources()
    extra = []
    for g in ('libasn1parser/asn1p_y.y', 'libasn1parser/asn1p_l.l'):
        p = os.path.join(REPO, g)
        if os.path.exists(p):
            extra.append(p)
    key = sha('asn1c', str(san), file_hash(srcs + compiler_headers() + extra))
    d = os.path.join(BUILD, 'asn1c-' + key)
    exe = os.path.join(d, 'asn1c')
    if os.path.exists(exe):
        return exe
    tmp = d + '.tmp%d' % os.getpid()
    shutil.rmtree(tmp, ignore_errors=True)
    os.makedirs(tmp)
    inc = []
    if not os.path.exists(os.path.join(REPO, 'config.h')):
        with open(os.path.join(tmp, 'config.h'), 'w') as f:
            f.write(CONFIG_FALLBACK)
        inc.append('-I' + tmp)
    # grammar: regenerate if .y/.l are newer in content than the checked-in .c (detected by stamp file
    # comparison is impossible; we regenerate when bison/flex are present and the .y/.l mention differs)
    srcs = _maybe_regen_grammar(srcs, tmp)
    flags = ['-O1', '-g', '-w', '-DHAVE_CONFIG_H', '-DDATADIR="%s"' % os.path.join(REPO, 'skeletons'),
             '-I' + REPO] + inc + ['-I' + os.path.join(REPO, x) for x in COMPILER_DIRS + ['skeletons']]
    ld = []
    if san:
        flags += ['-fsanitize=address,undefined', '-fno-sanitize-recover=undefined']
        ld = ['-fsanitize=address,undefined']
    jobs = []
    objs = []
    for s in srcs:
        o = os.path.join(tmp, sha(s) + '_' + os.path.basename(s)[:-2] + '.o')
        jobs.append((s, o, flags))
        objs.append(o)
    _compile_many(jobs)
    r = run([CC] + ld + objs + ['-o', os.path.join(tmp, 'asn1c'), '-lm'])
    if r.returncode:
        raise BuildError('asn1c link failed:\n' + r.stderr.decode()[:4000])
    for o in objs:
        os.unlink(o)
    try:
        os.rename(tmp, d)
    except OSError:
        shutil.rmtree(tmp, ignore_errors=True)
    return exe


def _maybe_regen_grammar(srcs, tmp):
    """If asn1p_y.y / asn1p_l.l were edited (newer mtime than the generated .c), regenerate into tmp."""
    pdir = os.path.join(REPO, 'libasn1parser')
    out = list(srcs)
    y, yc = os.path.join(pdir, 'asn1p_y.y'), os.path.join(pdir, 'asn1p_y.c')
    l, lc = os.path.join(pdir, 'asn1p_l.l'), os.path.join(pdir, 'asn1p_l.c')
    try:
        if os.path.getmtime(y) > os.path.getmtime(yc) + 1 and shutil.which('bison'):
            r = run(['bison', '-p', 'asn1p_', '-d', '-o', os.path.join(tmp, 'asn1p_y.c'), y])
            if r.returncode == 0:
                out = [os.path.join(tmp, 'asn1p_y.c') if s == yc else s for s in out]
        if os.path.getmtime(l) > os.path.getmtime(lc) + 1 and shutil.which('flex'):
            r = run(['flex', '-s', '-p', '-Cem', '-Pasn1p_', '-o', os.path.join(tmp, 'asn1p_l.c'), l])
            if r.returncode == 0:
                out = [os.path.join(tmp, 'asn1p_l.c') if s == lc else s for s in out]
    except OSError:
        pass
    return out


def skeleton_sources():
    return [f for f in sorted(glob.glob(os.path.join(REPO, 'skeletons', '*.c')))
            if os.path.basename(f) not in SKEL_EXCLUDE]


def skeleton_headers():
    return sorted(glob.glob(os.path.join(REPO, 'skeletons', '*.h')))


@_locked
def skel_lib(flavour='asan', defines=()):
    """Static library of the runtime skeletons for one flavour; returns (lib path, cflags, ldflags)."""
    cfl, ldf = FLAVOURS[flavour]
    cfl = list(cfl) + ['-D' + x for x in defines]
    key = sha('skel', flavour, ' '.join(cfl), file_hash(skeleton_sources() + skeleton_headers()))
    d = os.path.join(BUILD, 'skel-%s-%s' % (flavour, key))
    lib = os.path.join(d, 'libskel.a')
    if os.path.exists(lib):
        return lib, cfl, list(ldf)
    tmp = d + '.tmp%d' % os.getpid()
    shutil.rmtree(tmp, ignore_errors=True)
    os.makedirs(tmp)
    flags = cfl + ['-w', '-I' + os.path.join(REPO, 'skeletons')]
    jobs, objs = [], []
    for s in skeleton_sources():
        bn = os.path.basename(s)
        # with -no-gen-OER asn1c does not copy the CODEC-OER files (skeletons/file-dependencies); mirror that
        if 'ASN_DISABLE_OER_SUPPORT' in defines and (bn.startswith('oer_') or bn.endswith('_oer.c')):
            continue
        o = os.path.join(tmp, os.path.basename(s)[:-2] + '.o')
        jobs.append((s, o, flags))
        objs.append(o)
    _compile_many(jobs)
    r = run(['ar', 'rcs', os.path.join(tmp, 'libskel.a')] + objs)
    if r.returncode:
        raise BuildError('ar failed')
    for o in objs:
        os.unlink(o)
    try:
        os.rename(tmp, d)
    except OSError:
        shutil.rmtree(tmp, ignore_errors=True)
    return lib, cfl, list(ldf)


def run_asn1c(module_texts, outdir, opts=(), mode='-R', timeout=120, san=False):
    """Run asn1c on module text(s) writing generated files into outdir. Returns CompletedProcess."""
    os.makedirs(outdir, exist_ok=True)
    files = []
    if isinstance(module_texts, str):
        module_texts = [module_texts]
    for i, t in enumerate(module_texts):
        p = os.path.join(outdir, 'm%d.asn1' % i)
        with open(p, 'w') as f:
            f.write(t)
        files.append(p)
    gen = os.path.join(outdir, 'gen')
    shutil.rmtree(gen, ignore_errors=True)
    os.makedirs(gen)
    cmd = [asn1c(san=san), '-S', os.path.join(REPO, 'skeletons'), '-no-gen-example', '-D', gen]
    if mode:
        cmd.append(mode)
    cmd += list(opts) + files
    return subprocess.run(cmd, stdout=subprocess.PIPE, stderr=subprocess.PIPE, timeout=timeout)


def gen_types(module_texts, type_names, outdir, opts=(), flavour='asan', defines=(), extra_cflags=()):
    """asn1c -R on the modules, compile generated .c, archive into libgen.a plus a type table
    `verif_types[]` (name -> descriptor). Returns dict(lib=, cflags=, ldflags=, gen=) or raises."""
    r = run_asn1c(module_texts, outdir, opts=opts)
    if r.returncode != 0:
        e = BuildError('asn1c failed (%d): %s' % (r.returncode, r.stderr.decode(errors='replace')[:3000]))
        e.stage, e.returncode, e.wrote = 'asn1c', r.returncode, len(os.listdir(os.path.join(outdir, 'gen')))
        raise e
    gen = os.path.join(outdir, 'gen')
    lib, cfl, ldf = skel_lib(flavour, defines)
    table = os.path.join(gen, 'verif_table.c')
    with open(table, 'w') as f:
        f.write('#include <asn_application.h>\n')
        for n in type_names:
            f.write('extern asn_TYPE_descriptor_t asn_DEF_%s;\n' % n.replace('-', '_'))
        f.write('struct verif_type { const char *name; asn_TYPE_descriptor_t *td; };\n')
        f.write('struct verif_type verif_types[] = {\n')
        for n in type_names:
            f.write(' { "%s", &asn_DEF_%s },\n' % (n, n.replace('-', '_')))
        f.write(' { 0, 0 } };\n')
    flags = cfl + list(extra_cflags) + ['-w', '-I' + os.path.join(REPO, 'skeletons'), '-I' + gen]
    jobs, objs = [], []
    for s in sorted(glob.glob(os.path.join(gen, '*.c'))):
        o = s[:-2] + '.o'
        jobs.append((s, o, flags))
        objs.append(o)
    _compile_many(jobs)
    glib = os.path.join(outdir, 'libgen.a')
    if os.path.exists(glib):
        os.unlink(glib)
    r = run(['ar', 'rcs', glib] + objs)
    if r.returncode:
        raise BuildError('ar failed: ' + r.stderr.decode())
    for o in objs:
        os.unlink(o)
    return dict(lib=glib, skel=lib, cflags=cfl, ldflags=ldf, gen=gen)


def cxx_check_headers(gen):
    """every emitted header must be acceptable to a C++ compiler (g++ -fsyntax-only)"""
    hs = sorted(glob.glob(os.path.join(gen, '*.h')))
    if not hs:
        return
    tu = os.path.join(gen, 'verif_cxx_check.cpp')
    with open(tu, 'w') as f:
        f.write('extern "C" {\n')
        for h in hs:
            f.write('#include "%s"\n' % os.path.basename(h))
        f.write('}\n')
    r = run(['g++', '-fsyntax-only', '-w', '-I' + os.path.join(REPO, 'skeletons'), '-I' + gen, tu])
    os.unlink(tu)
    if r.returncode:
        raise BuildError('c++ header check failed:\n' + r.stderr.decode(errors='replace')[:3000])


@_locked
def drv_objects(names, flavour='asan', extra_cflags=(), defines=()):
    """Compile driver sources /verif/drv/<name>.c for a flavour (depends on skeleton headers)."""
    cfl, ldf = FLAVOURS[flavour]
    cfl = list(cfl) + ['-D' + x for x in defines] + list(extra_cflags)
    srcs = [os.path.join(VERIF, 'drv', n + '.c') for n in names]
    hdrs = glob.glob(os.path.join(VERIF, 'drv', '*.h'))
    key = sha('drv', flavour, ' '.join(cfl), file_hash(srcs + hdrs + skeleton_headers()))
    d = os.path.join(BUILD, 'drv-%s-%s' % (flavour, key))
    objs = [os.path.join(d, n + '.o') for n in names]
    if all(os.path.exists(o) for o in objs):
        return objs
    tmp = d + '.tmp%d' % os.getpid()
    shutil.rmtree(tmp, ignore_errors=True)
    os.makedirs(tmp)
    flags = cfl + ['-Wall', '-Wno-unused-function', '-I' + os.path.join(REPO, 'skeletons'), '-I' + os.path.join(VERIF, 'drv')]
    _compile_many([(s, os.path.join(tmp, n + '.o'), flags) for s, n in zip(srcs, names)])
    try:
        os.rename(tmp, d)
    except OSError:
        shutil.rmtree(tmp, ignore_errors=True)
    return objs


WRAP = ['-Wl,--wrap=malloc', '-Wl,--wrap=calloc', '-Wl,--wrap=realloc', '-Wl,--wrap=free']


def link(exe, objs, g, extra_ld=(), wrap=True):
    cmd = [CC] + g['ldflags'] + list(objs) + [g['lib'], g['skel']] + (WRAP if wrap else []) + list(extra_ld) + ['-lm', '-o', exe]
    r = run(cmd)
    if r.returncode:
        raise BuildError('link failed: ' + r.stderr.decode()[:3000])
    return exe


def clean_old(max_age_s=0):
    """Remove stale *.tmp* dirs."""
    for p in glob.glob(os.path.join(BUILD, '*.tmp*')):
        shutil.rmtree(p, ignore_errors=True)


if __name__ == '__main__':
    t = time.time()
    print(asn1c(), time.time() - t)
    t = time.time()
    print(skel_lib('asan')[0], time.time() - t)
