import json,sys,collections
prop=sys.argv[1]
v=json.load(open('/verif/build/last_violations_%s.json'%prop))
g=collections.OrderedDict()
for x in v:
    s=x['sig']
    k=(s['kind'],s.get('syntax'),tuple(f for f in s.get('features',[]) if not f.startswith('k:')))
    g.setdefault(k,[]).append(x)
skip=sys.argv[2:] 
for k,xs in g.items():
    if any(sk in k[0] for sk in skip): continue
    labs=collections.Counter(x['sig'].get('label','').split('/')[0] for x in xs)
    print('==',len(xs),k, dict(list(labs.items())[:12]))
    r=xs[0]
    print('      e.g.', r['sig'].get('label'), '| value',str(r['replay'].get('value'))[:70],'| der',str(r['replay'].get('ref_der'))[:40],'|',str(r['replay'].get('detail'))[:200].replace(chr(10),' '))
