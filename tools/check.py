#!/usr/bin/env python3
"""Entry point named in MANIFEST.json:  python3 tools/check.py <ID> --tier quick|thorough"""
import sys, os, argparse, importlib, traceback
sys.path.insert(0, os.path.dirname(os.path.dirname(os.path.abspath(__file__))))


def main():
    ap = argparse.ArgumentParser()
    ap.add_argument('prop')
    ap.add_argument('--tier', default=os.environ.get('VERIF_TIER', 'quick'))
    ap.add_argument('--replay')
    ap.add_argument('--families')
    ap.add_argument('--keep', action='store_true')
    a = ap.parse_args()
    mod = importlib.import_module('checks.' + a.prop.lower())
    try:
        rc = mod.run(a)
    except Exception:
        traceback.print_exc()
        print('HARNESS-ERROR property=%s (no verdict)' % a.prop)
        sys.exit(2)
    sys.exit(rc)


if __name__ == '__main__':
    main()
