#!/usr/bin/env python3
"""Regenerates MANIFEST.json from the table below (single source of truth for what is claimed)."""
import json, os, sys
V = os.path.dirname(os.path.dirname(os.path.abspath(__file__)))

CHECKS = {
    'C01': dict(level='exploration', design='5/C01',
                technique='bounded-exhaustive enumeration of type shapes x boundary values; every execution run on the real codecs; reference-DER-built values; differential oracle over 5 syntaxes and all ordered syntax pairs',
                text='Every (type, value) of the finite shape families S0-S6 (all leaf forms x container roles x tagging modes, one-deviation value alphabet; two-deviation in thorough) is decoded from independent reference DER, encoded in DER/OER/UPER/BASIC-XER/CANONICAL-XER, decoded back, compared, DER-re-encoded and transcoded over all ordered pairs. Complete enumeration of the stated space, not sampling.',
                note='Trusts ref/ber.py for building values, gcc, ASan/UBSan. Values are bounded to the alphabet of DESIGN 4.2; known findings mask narrow regions listed in known_findings.json.'),
    'C02': dict(level='exploration', design='5/C02',
                technique='bounded-exhaustive enumeration with an independent reference encoder (X.690/X.691/X.696 written from the standards) as byte-exact oracle',
                text='Bytes of asn1c DER, UPER and OER encoders are compared with the Python reference encoders for every (type, value) of families S0-S6 including tag numbers to 2^30, lengths across 127/128, 16383/16384, 64K fragmentation and range ladders around every power of two.',
                note='Trusts the reference model ref/*.py (self-tested against worked examples of the standards), gcc, sanitizers.'),
}

NOT_YET = 'check not built yet (work in progress; see DESIGN.md section 5)'


def main():
    props = [json.loads(l) for l in open(os.path.join(V, 'properties.jsonl'))]
    checks = []
    na = []
    for p in props:
        pid = p['id']
        if pid in CHECKS:
            c = CHECKS[pid]
            checks.append(dict(
                property_id=pid,
                quick_cmd='python3 tools/check.py %s --tier quick' % pid,
                thorough_cmd='python3 tools/check.py %s --tier thorough' % pid,
                evidence_file='/verif/evidence/%s.json' % pid,
                replay_cmd_template='python3 tools/replay.py {path}',
                engine='explorer',
                level_claimed=dict(category=c['level'], text=c['text'], design_ref='DESIGN.md ' + c['design']),
                level_note=c['note'],
                technique=c['technique']))
        else:
            na.append(dict(property_id=pid, reason=NOT_YET))
    m = dict(
        version=1,
        setup_cmd='python3 tools/setup.py',
        hooks=dict(guard='VLM_ASN1C_VERIF',
                   enable='no source hooks are needed: checks build /repo sources out of tree (tools/build.py) with -finstrument-functions, -Wl,--wrap=malloc,calloc,realloc,free and sanitizers',
                   baseline_off_cmd='cd /repo && make -k check',
                   source_commits=[], add_only=True),
        engines=[dict(name='explorer', path='/verif/tools/check.py', serves_properties=sorted(CHECKS),
                      kind_free_text='bounded-exhaustive explorers over the real implementation (type/value/variant/mutation enumerators, chunk-schedule state graph, lifecycle BFS with allocation faults, preemption-bounded scheduler) with an independent Python reference model as oracle')],
        checks=checks,
        not_applicable=na,
        notes='All checks rebuild asn1c, the skeleton library and generated code from the current /repo working tree into /verif/build. Known findings: /verif/known_findings.json.')
    with open(os.path.join(V, 'MANIFEST.json'), 'w') as f:
        json.dump(m, f, indent=1)
    print('MANIFEST.json: %d checks, %d not claimed' % (len(checks), len(na)))


if __name__ == '__main__':
    main()
