#!/usr/bin/env python3
"""Replay one violation file without any explorer: rebuild the module from the current /repo and run the
single recorded driver command (or asn1c invocation); prints what is observed now."""
import json, os, sys, shutil
sys.path.insert(0, os.path.dirname(os.path.dirname(os.path.abspath(__file__))))
from tools import build, common, corpus


def main():
    path = sys.argv[1]
    r = json.load(open(path))
    print('property:', r.get('property'))
    print('signature:', json.dumps(r.get('signature')))
    wdir = os.path.join(build.BUILD, 'replay-%d' % os.getpid())
    try:
        if r.get('cmd') and r.get('module') and r.get('type'):
            import re
            names = re.findall(r'^(\w[\w-]*) ::=', r['module'], re.M)
            g = build.gen_types(r['module'], names, wdir, opts=r.get('asn1c_opts', []))
            exe = build.link(os.path.join(wdir, 'drv'), build.drv_objects(corpus.DRV), g)
            for i in range(2):
                res = common.run_driver(exe, [r['cmd']], watchdog=60)[0]
                print('run %d: %s' % (i + 1, (res.line or ('CRASH: ' + (res.crash or '')[-1500:]))[:3000]))
        elif r.get('module'):
            p = build.run_asn1c(r['module'], wdir, opts=r.get('asn1c_opts', []), mode=r.get('asn1c_mode', '-P'))
            print('asn1c exit', p.returncode)
            print(p.stderr.decode(errors='replace')[:3000])
        else:
            print('replay file carries no driver command; recorded detail follows')
        print('recorded detail:', str(r.get('detail'))[:2000])
    finally:
        shutil.rmtree(wdir, ignore_errors=True)


if __name__ == '__main__':
    main()
