"""ad-hoc: python3 tools/adhoc.py module.asn1 T1,T2 [asn1c opts] -> builds build/adhoc/drv"""
import sys, os
sys.path.insert(0, os.path.dirname(os.path.dirname(os.path.abspath(__file__))))
from tools import build, corpus
txt = open(sys.argv[1]).read()
names = sys.argv[2].split(',')
out = os.path.join(build.BUILD, 'adhoc')
g = build.gen_types(txt, names, out, opts=sys.argv[3:])
objs = build.drv_objects(corpus.DRV)
print(build.link(out + '/drv', objs, g))
