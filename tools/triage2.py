import json,sys,collections
prop=sys.argv[1]
v=json.load(open('/verif/build/last_violations_%s.json'%prop))
g=collections.OrderedDict()
for x in v:
    s=x['sig']
    k=(s['kind'],s.get('syntax'),s.get('crash_kind'),s.get('crash_site'),tuple(f for f in s.get('features',[]) if not f.startswith(('k:','top'))))
    g.setdefault(k,[]).append(x)
for k,xs in g.items():
    syn=collections.Counter(x['sig'].get('syntax') for x in xs)
    labs=collections.Counter(x['sig'].get('label','').split('/')[0] for x in xs)
    r=xs[0]['replay']
    print('==',len(xs),k,dict(syn),list(labs.items())[:6])
    print('     cmd:',str(r.get('cmd'))[:110],'| seed',str(r.get('seed'))[:40],'|',str(r.get('detail'))[:120].replace('\n',' '))
