"""Shared plumbing: driver runner with crash attribution, evidence writer, known findings, replays."""
import json, os, subprocess, sys, time, hashlib, tempfile, shutil
from concurrent.futures import ThreadPoolExecutor

sys.path.insert(0, os.path.dirname(os.path.dirname(os.path.abspath(__file__))))
from tools import build

VERIF = build.VERIF
# VERIF_SCRATCH_OUT: runs against a deliberately broken tree (tools/seedtest.py) must not overwrite the evidence of the real tree
_OUT = os.environ.get('VERIF_SCRATCH_OUT') or VERIF
EVID = os.path.join(_OUT, 'evidence')
REPLAYS = os.path.join(_OUT, 'replays')
ASAN_ENV = dict(os.environ,
                ASAN_OPTIONS='detect_leaks=0:abort_on_error=1:allocator_may_return_null=1:handle_abort=1:max_allocation_size_mb=4096:detect_stack_use_after_return=0',
                UBSAN_OPTIONS='print_stacktrace=1:halt_on_error=1')


class Result:
    """result of one driver command: .line (str or None), .crash (str stderr tail or None)"""
    __slots__ = ('line', 'crash', 'status', 'cur')

    def __init__(self, line=None, crash=None, status=None, cur=None):
        self.line, self.crash, self.status, self.cur = line, crash, status, cur


def _read_cur(path):
    try:
        with open(path, 'rb') as f:
            d = f.read()
        if len(d) < 16:
            return None
        import struct
        idx, n = struct.unpack('<qQ', d[:16])
        return (idx, d[16:16 + n])
    except OSError:
        return None


def run_driver(exe, lines, watchdog=10, env=None, timeout=None):
    """Feed `lines` to the driver; returns a list of Result, one per line. A crash is attributed to the
    first command without a result; the driver is restarted behind it."""
    env = dict(env or ASAN_ENV)
    os.makedirs(os.path.join(build.BUILD, 'cur'), exist_ok=True)
    import threading
    curpath = os.path.join(build.BUILD, 'cur', 'cur-%d-%d' % (os.getpid(), threading.get_ident()))
    env['VERIF_CUR'] = curpath
    results = []
    pos = 0
    n = len(lines)
    while pos < n:
        try:
            os.unlink(curpath)
        except OSError:
            pass
        inp = ('\n'.join(lines[pos:]) + '\n').encode()
        try:
            p = subprocess.run([exe, str(watchdog)], input=inp, stdout=subprocess.PIPE, stderr=subprocess.PIPE, env=env,
                               timeout=timeout)
            out, err, rc = p.stdout, p.stderr, p.returncode
        except subprocess.TimeoutExpired as e:
            out, err, rc = e.stdout or b'', (e.stderr or b'') + b'\nHARNESS TIMEOUT', -999
        outl = out.decode(errors='replace').split('\n')
        if outl and outl[-1] == '':
            outl.pop()
            complete = True
        else:
            complete = False
        if not complete and outl:
            outl.pop()   # partial line of the crashing command
        for l in outl:
            results.append(Result(line=l))
        pos += len(outl)
        if pos < n:
            if rc == 0:
                raise RuntimeError('driver exited 0 but produced %d of %d results' % (len(outl), n - pos + len(outl)))
            results.append(Result(crash=err.decode(errors='replace')[-6000:], status=rc, cur=_read_cur(curpath)))
            pos += 1
    try:
        os.unlink(curpath)
    except OSError:
        pass
    return results


def shard(items, k):
    return [items[i::k] for i in range(k)]


def run_driver_parallel(exe, lines, jobs=None, **kw):
    jobs = jobs or build.JOBS
    if len(lines) < 64:
        return run_driver(exe, lines, **kw)
    idx = list(range(len(lines)))
    sh = [s for s in shard(idx, jobs) if s]
    res = [None] * len(lines)
    with ThreadPoolExecutor(len(sh)) as ex:
        for s, r in zip(sh, ex.map(lambda s: run_driver(exe, [lines[i] for i in s], **kw), sh)):
            for i, x in zip(s, r):
                res[i] = x
    return res


def parse_kv(line):
    """'cmd k=v k=v | flag flag' -> (dict, [flags])"""
    head, _, tail = line.partition(' |')
    d = {}
    for tok in head.split()[1:]:
        k, _, v = tok.partition('=')
        d[k] = v
    flags = tail.split()
    # trailing k=v after the flags (leak=, badfree=)
    fl = []
    for f in flags:
        if '=' in f and f.split('=')[0] in ('leak', 'badfree'):
            d[f.split('=')[0]] = f.split('=')[1]
        else:
            fl.append(f)
    return d, fl


# ---------------------------------------------------------------------- known findings

class Findings:
    def __init__(self, prop, also=()):
        self.prop = prop
        props = [prop] + list(also)
        p = os.path.join(VERIF, 'known_findings.json')
        self.entries = []
        if os.path.exists(p):
            with open(p) as f:
                data = json.load(f)
            self.entries = [e for e in data.get('findings', []) if e.get('status') == 'known' and
                            set(props) & set(e.get('property') if isinstance(e.get('property'), list) else [e.get('property')])]
        self.hit = {}

    def match(self, sig):
        """sig: dict describing a violation (must contain 'kind' plus identifying fields). An entry
        matches if all key/values of one of its 'match' dicts are equal to the violation's."""
        for e in self.entries:
            for m in e.get('match', []):
                if all(self._one(sig, k, v) for k, v in m.items()):
                    self.hit.setdefault(e['id'], [0, e])[0] += 1
                    return e
        return None

    @staticmethod
    def _one(sig, k, v):
        if k == 'feature':          # the case exercises this construct
            return v in (sig.get('features') or [])
        if k == 'not_feature':
            return v not in (sig.get('features') or [])
        if k == 'label_prefix':
            return str(sig.get('label', '')).startswith(v)
        if k == 'label_contains':
            return v in str(sig.get('label', ''))
        if k == 'syntax_prefix':
            return str(sig.get('syntax', '')).startswith(v)
        if k == 'detail_contains':
            return v in str(sig.get('detail', ''))
        if k.endswith('_contains'):
            return v in str(sig.get(k[:-9], ''))
        if k.endswith('_regex'):
            import re
            return re.search(v, str(sig.get(k[:-6], ''))) is not None
        if isinstance(v, list):
            return sig.get(k) in v or str(sig.get(k)) in [str(x) for x in v]
        return str(sig.get(k)) == str(v)

    def replay_witnesses(self):
        """every listed finding may carry witnesses (module + driver command + regex that recognises the failure);
        they are replayed on every run so that the finding is still reported when its region is masked in the sweep"""
        import re, shutil
        from tools import corpus
        jobs = []
        for e in self.entries:
            for i, w in enumerate(e.get('witnesses', [])):
                jobs.append((e, i, w))
        if not jobs:
            return

        def one(j):
            e, i, w = j
            wdir = os.path.join(build.BUILD, 'wit-%d' % os.getpid(), '%s-%d' % (e['id'], i))
            try:
                if w.get('kind', 'driver') == 'driver':
                    g = build.gen_types(w['module'], w['types'], wdir, opts=w.get('opts', []))
                    objs = build.drv_objects(corpus.DRV)
                    exe = build.link(os.path.join(wdir, 'drv'), objs, g)
                    r = run_driver(exe, [w['cmd']], watchdog=w.get('watchdog', 20))[0]
                    text = (r.line or '') + '\n' + (r.crash or '')
                else:
                    r = build.run_asn1c(w['module'], wdir, opts=w.get('opts', []), mode=w.get('mode', '-P'))
                    text = 'exit=%d\n' % r.returncode + r.stdout.decode(errors='replace')[:200000] + r.stderr.decode(errors='replace')[:20000]
            except build.BuildError as ex:
                text = 'BUILD-ERROR ' + str(ex)
            finally:
                shutil.rmtree(wdir, ignore_errors=True)
            return e, bool(re.search(w['fails_if'], text, re.S)), text

        with ThreadPoolExecutor(4) as ex:
            for e, still, text in ex.map(one, jobs):
                if still:
                    self.hit.setdefault(e['id'], [0, e])[0] += 1
                else:
                    print('NOTE: a witness of known finding %s no longer fails (finding may have been repaired)' % e['id'])
        shutil.rmtree(os.path.join(build.BUILD, 'wit-%d' % os.getpid()), ignore_errors=True)

    def report(self):
        for fid, (cnt, e) in sorted(self.hit.items()):
            print('KNOWN-FINDING: property=%s %s [%s, %d occurrence(s) this run]' % (self.prop, e['what'], fid, cnt))

    def summary(self):
        return {fid: cnt for fid, (cnt, e) in self.hit.items()}


# ---------------------------------------------------------------------- violations, evidence

class Check:
    def __init__(self, prop, level, tier, also_findings_of=()):
        self.prop, self.level, self.tier = prop, level, tier
        self.t0 = time.time()
        self.violations = []
        self.findings = Findings(prop, also_findings_of)
        self.cov = {}
        self.seed = int(os.environ.get('VERIF_SEED', '0') or 0)
        self.assumptions = []
        self.deadline = None

    def violation(self, sig, replay):
        """record a violation unless it is a listed known finding. `sig` identifies it, `replay` is a
        self-contained dict written to replays/."""
        if self.findings.match(sig):
            return False
        self.violations.append((sig, replay))
        return True

    def finish(self, coverage, exhaustive=True):
        os.makedirs(EVID, exist_ok=True)
        self.findings.replay_witnesses()
        self.findings.report()
        nv = len(self.violations)
        shown = 0
        seen = set()
        for sig, replay in self.violations:
            key = json.dumps(sig, sort_keys=True)
            if key in seen:
                continue
            seen.add(key)
            if shown >= 25:
                continue
            shown += 1
            d = os.path.join(REPLAYS, self.prop)
            os.makedirs(d, exist_ok=True)
            body = dict(property=self.prop, signature=sig, **replay)
            dig = hashlib.sha256(json.dumps(body, sort_keys=True, default=str).encode()).hexdigest()[:16]
            path = os.path.join(d, dig + '.json')
            with open(path, 'w') as f:
                json.dump(body, f, indent=1, default=str)
            print('VIOLATION property=%s replay=%s' % (self.prop, path))
            print('  detail: ' + json.dumps(sig, default=str)[:600])
        try:
            os.makedirs(build.BUILD, exist_ok=True)
            with open(os.path.join(build.BUILD, 'last_violations_%s.json' % self.prop), 'w') as f:
                json.dump([dict(sig=s, replay=r) for s, r in self.violations[:200000]], f, indent=1, default=str)
        except OSError:
            pass
        cov = dict(coverage)
        cov.setdefault('exhaustive', exhaustive)
        cov['known_finding_hits'] = self.findings.summary()
        ev = dict(property_id=self.prop, tier=self.tier, seed=self.seed, level=self.level, coverage=cov,
                  assumptions=self.assumptions, wall_s=round(time.time() - self.t0, 2), violations=nv)
        with open(os.path.join(EVID, self.prop + '.json'), 'w') as f:
            json.dump(ev, f, indent=1, default=str)
        # evidence/<id>.json holds the latest run of either tier; a copy per tier is kept beside it
        os.makedirs(os.path.join(EVID, self.tier), exist_ok=True)
        with open(os.path.join(EVID, self.tier, self.prop + '.json'), 'w') as f:
            json.dump(ev, f, indent=1, default=str)
        print('%s %s: evaluations=%s distinct_nontrivial=%s violations=%d wall=%.1fs' % (
            self.prop, self.tier, cov.get('evaluations'), cov.get('distinct_nontrivial'), nv, time.time() - self.t0))
        return 1 if nv else 0


def hexs(b):
    return b.hex() if b else '-'


import re as _re


def crash_sig(text):
    """(kind, function) of a crash report: sanitizer error kind / assertion / watchdog, and the first
    library frame. Line numbers are deliberately not part of the identity."""
    kind, func = 'crash', '?'
    if 'WATCHDOG' in text or 'HARNESS TIMEOUT' in text:
        kind = 'timeout'
    m = _re.search(r'Assertion `(.*?)\' failed', text)
    if m:
        kind = 'assert'
        m2 = _re.search(r': (\w+): Assertion', text)
        if m2:
            func = m2.group(1)
    m = _re.search(r'runtime error: ([^\n]*)', text)
    if m:
        kind = 'ubsan:' + _re.sub(r'-?\d+', 'N', m.group(1))[:60]
    m = _re.search(r'ERROR: AddressSanitizer: ([\w-]+)', text)
    if m:
        kind = 'asan:' + m.group(1)
    if func == '?':
        for fm in _re.finditer(r'#\d+ 0x[0-9a-f]+ in (\w+) (/\S+?):\d+', text):
            if '/repo/' in fm.group(2) or '/gen/' in fm.group(2):
                func = fm.group(1)
                break
        else:
            if kind == 'asan:SEGV' and 'pc 0x000000000000' in text:
                func = 'null_function_pointer'
                for fm in _re.finditer(r'#\d+ 0x[0-9a-f]+ in (\w+) (/\S+?):\d+', text):
                    if '/repo/' in fm.group(2):
                        func = 'null_call_from:' + fm.group(1)
                        break
    if kind == 'asan:SEGV' and 'pc 0x000000000000' in text and not func.startswith('null'):
        func = 'null_call_from:' + func
    return kind, func
