#!/usr/bin/env python3
"""setup_cmd: self-test the reference model and warm the out-of-tree build caches (all from files on disk)."""
import os, sys, subprocess
sys.path.insert(0, os.path.dirname(os.path.dirname(os.path.abspath(__file__))))
from tools import build, corpus


def main():
    r = subprocess.run([sys.executable, os.path.join(build.VERIF, 'ref', 'selftest.py')])
    if r.returncode:
        sys.exit(r.returncode)
    os.makedirs(build.BUILD, exist_ok=True)
    print('asn1c:', build.asn1c())
    for fl in ('asan', 'plain'):
        print('skeletons[%s]:' % fl, build.skel_lib(fl)[0])
    print('driver objects:', len(build.drv_objects(corpus.DRV)))
    print('setup ok')


if __name__ == '__main__':
    main()
