#!/usr/bin/env python3
"""Render the table of seeded changes (seeded/*/meta.json) into DESIGN.md between the SEEDED-TABLE markers."""
import os, json, glob, re

V = os.path.dirname(os.path.dirname(os.path.abspath(__file__)))


def main():
    rows = []
    for mp in sorted(glob.glob(os.path.join(V, 'seeded', '*', 'meta.json'))):
        m = json.load(open(mp))
        ran, earlier_silent = {}, set()
        for r in m.get('ran', []):
            k = (r['check'], r.get('tier', 'quick'))
            if k in ran and ran[k]['exit'] == 0 and r['exit'] == 1:
                earlier_silent.add(k)                           # missed at first, reported after the check was strengthened
            ran[k] = r                                          # the latest run of a check wins
        caught = sorted({'%s %s%s' % (c, t, ' (after strengthening, see text)' if (c, t) in earlier_silent else '') for (c, t), r in ran.items() if r['exit'] == 1})
        missed = sorted({'%s %s' % (c, t) for (c, t), r in ran.items() if r['exit'] == 0})
        rows.append('| `seeded/%s` | %s | %s | %s | %s | %s |' % (
            m['name'], m['breaks_property'], m.get('summary', '').replace('|', '/'), m.get('needs', '').replace('|', '/'),
            ', '.join(caught) or '–', ', '.join(missed) or '–'))
    table = ['| change | property | what was changed | needs to manifest | reported by (exit 1) | ran silent (exit 0) |', '|---|---|---|---|---|---|'] + rows
    p = os.path.join(V, 'DESIGN.md')
    s = open(p).read()
    block = '<!-- SEEDED-TABLE -->\n' + '\n'.join(table) + '\n<!-- /SEEDED-TABLE -->'
    if '<!-- /SEEDED-TABLE -->' in s:
        s = re.sub(r'<!-- SEEDED-TABLE -->.*?<!-- /SEEDED-TABLE -->', lambda _: block, s, flags=re.S)
    else:
        s = s.replace('<!-- SEEDED-TABLE -->', block)
    open(p, 'w').write(s)
    print('\n'.join(table))


if __name__ == '__main__':
    main()
