import json,sys,collections
prop=sys.argv[1]
v=json.load(open('/verif/build/last_violations_%s.json'%prop))
g=collections.Counter(); ex={}
for x in v:
    s=x['sig']; k=(s['kind'],s.get('syntax'),s.get('crash_site'))
    g[k]+=1; ex.setdefault(k,x)
for k,n in g.most_common(60):
    r=ex[k]['replay']; fe=[f for f in ex[k]['sig'].get('features',[]) if not f.startswith(('k:','top'))]
    print(n,k,'|',ex[k]['sig'].get('label','')[:40],'|',fe,'|',str(r.get('cmd'))[:70],'|',str(r.get('detail'))[:90].replace('\n',' '))
