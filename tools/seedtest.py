#!/usr/bin/env python3
"""Confirm a seeded change produced by an independent sub-agent, and run checks against it.

  seedtest.py confirm <seed-name> <worktree> <property> <demo-command>
      re-runs the agent's demonstration in the scratch worktree with the change (must fail) and without it (must
      pass), reads the suite logs (the agent's and, if present, my own re-run SEED/suite-confirm.log), copies
      patch.diff + demonstration + notes into /verif/seeded/<seed-name>/ and writes meta.json.
  seedtest.py run <seed-name> <check> [<check> ...] [--tier quick|thorough]
      applies seeded/<seed-name>/patch.diff to /repo, runs the checks, records exit status / VIOLATION count in
      meta.json, and ALWAYS reverts /repo (git checkout -- .).
"""
import sys, os, subprocess, shutil, json, re, time

V = os.path.dirname(os.path.dirname(os.path.abspath(__file__)))


def sh(cmd, cwd=None, timeout=7200):
    r = subprocess.run(cmd, shell=True, cwd=cwd, stdout=subprocess.PIPE, stderr=subprocess.STDOUT, timeout=timeout)
    return r.returncode, r.stdout.decode(errors='replace')


def suite_summary(path):
    txt = open(path, errors='replace').read()
    passes = sum(int(x) for x in re.findall(r'^# PASS:\s+(\d+)', txt, re.M))
    fails = sorted(set(re.findall(r'^FAIL: (\S+)', txt, re.M)))
    return dict(passes=passes, failing=fails)


def confirm(name, wt, prop, demo):
    seed = os.path.join(wt, 'SEED')
    out = os.path.join(V, 'seeded', name)
    os.makedirs(out, exist_ok=True)
    mp = os.path.join(out, 'meta.json')
    meta = json.load(open(mp)) if os.path.exists(mp) else dict(ran=[])
    meta.update(name=name, breaks_property=prop, worktree_base=sh('git rev-parse --short HEAD', wt)[1].strip())
    rc_with, o_with = sh(demo, wt, 1800)
    sh('git apply -R SEED/patch.diff', wt)
    sh('make -j8', wt, 1800)
    rc_without, o_without = sh(demo, wt, 1800)
    sh('git apply SEED/patch.diff', wt)
    sh('make -j8', wt, 1800)
    meta['demo'] = dict(command=demo, exit_with_change=rc_with, exit_without_change=rc_without, tail_with_change=o_with[-500:])
    print('demo: with change exit %d, without exit %d' % (rc_with, rc_without))
    meta['suite'] = {}
    for key, fn in (('agent_run', 'suite.log'), ('my_rerun', 'suite-confirm.log')):
        p = os.path.join(seed, fn)
        if os.path.exists(p):
            meta['suite'][key] = suite_summary(p)
            print('suite %s: %s' % (key, meta['suite'][key]))
    meta['suite']['command'] = 'rm -rf tests/tests-randomized/.tmp.*; make -k check (with the change applied, in the scratch worktree)'
    for f in os.listdir(seed):
        p = os.path.join(seed, f)
        if os.path.isfile(p) and os.path.getsize(p) < 200000 and not f.startswith('suite') and not f.endswith(('.o', '.a', '.log', '.out')):
            with open(p, 'rb') as fh:
                head = fh.read(4)
            if head == b'\x7fELF':
                continue
            shutil.copy(p, os.path.join(out, f))
    # a demo directory (C14 seed) is copied when small
    for f in os.listdir(seed):
        p = os.path.join(seed, f)
        if os.path.isdir(p) and f in ('demo',):
            for g in os.listdir(p):
                q = os.path.join(p, g)
                if os.path.isfile(q) and os.path.getsize(q) < 100000 and g.endswith(('.c', '.h', '.asn1', '.sh', '.md', '.txt')):
                    os.makedirs(os.path.join(out, f), exist_ok=True)
                    shutil.copy(q, os.path.join(out, f, g))
    json.dump(meta, open(mp, 'w'), indent=1)
    ok = rc_with != 0 and rc_without == 0 and all(s['passes'] == 82 and s['failing'] == ['check-parsing.sh'] for k, s in meta['suite'].items() if isinstance(s, dict))
    print('CONFIRMED' if ok else 'NOT CONFIRMED')
    return 0 if ok else 1


def run(name, checks, tier):
    out = os.path.join(V, 'seeded', name)
    mp = os.path.join(out, 'meta.json')
    meta = json.load(open(mp))
    patch = os.path.join(out, 'patch.diff')
    rc, o = sh('git -C /repo status --short | grep -v "^??" | head -3')
    if o.strip():
        print('refusing: /repo has local modifications:\n' + o)
        return 2
    rc, o = sh('git -C /repo apply --check %s' % patch)
    how = 'clean'
    if rc != 0:
        rc, o = sh('git -C /repo apply --3way %s' % patch)
        how = '3way'
        if rc != 0:
            sh('git -C /repo checkout -- .')
            sh('git -C /repo reset -q')
            print('patch does not apply to /repo HEAD: ' + o[-300:])
            return 2
    else:
        sh('git -C /repo apply %s' % patch)
    meta['apply'] = how + ' on ' + sh('git -C /repo rev-parse --short HEAD')[1].strip()
    try:
        for c in checks:
            t = time.time()
            rc, o = sh('VERIF_SCRATCH_OUT=%s python3 tools/check.py %s --tier %s' % (os.path.join(V, 'build', 'seedout'), c, tier), V, 14400)
            nv = len(re.findall(r'^VIOLATION ', o, re.M))
            first = re.findall(r'^  detail: (.*)$', o, re.M)[:2]
            tot = re.findall(r'violations=(\d+)', o)
            meta['ran'].append(dict(check=c, tier=tier, exit=rc, violation_lines_printed=nv, violations=int(tot[-1]) if tot else None, wall_s=round(time.time() - t, 1),
                                    first_details=[f[:300] for f in first], summary=o.strip().split('\n')[-1][:200], repo_head=meta['apply']))
            print('%s %s: exit %d, violations=%s (%.0fs) %s' % (c, tier, rc, tot[-1] if tot else '?', time.time() - t, first[0][:160] if first else ''))
    finally:
        sh('git -C /repo checkout -- .')
        sh('git -C /repo reset -q')
    json.dump(meta, open(mp, 'w'), indent=1)
    return 0


if __name__ == '__main__':
    if sys.argv[1] == 'confirm':
        sys.exit(confirm(*sys.argv[2:6]))
    rest = sys.argv[3:]
    tier = 'quick'
    if '--tier' in rest:
        tier = rest[rest.index('--tier') + 1]
        rest = rest[:rest.index('--tier')]
    sys.exit(run(sys.argv[2], rest, tier))
